"""Hypothesis strategies producing JSON-able case descriptions."""
from hypothesis import strategies as st

NAME_POOL = ["q0", "q1", "q2", "q3", "q10", "q12"]
SHAPES = [
    (), (), (1,), (2,), (3,), (4,), (1, 1), (1, 2), (2, 1), (2, 2), (2, 3), (3, 2),
    (1, 3), (2, 1, 3), (1, 2, 1), (2, 2, 2), (1, 1, 2), (3, 1, 1),
]


def var_num(name):
    return int(name[1:])


@st.composite
def names_st(draw, min_size=1, max_size=4, pool=None, sorted_prob=0.9):
    pool = pool or NAME_POOL
    names = draw(st.lists(st.sampled_from(pool), min_size=min_size,
                          max_size=max_size, unique=True))
    if draw(st.integers(0, 9)) < 9 * sorted_prob + 0.001:
        names = sorted(names, key=var_num)
    return names


def shape_st(max_ndim=3, min_ndim=0):
    return st.sampled_from(
        [s for s in SHAPES if min_ndim <= len(s) <= max_ndim])


def int_coef():
    return st.one_of(
        st.sampled_from([0, 1, -1, 0, 1, 2]),
        st.integers(-4, 4),
    )


def coef_st(kind):
    if kind == "b":
        return st.sampled_from([0, 1, 1])
    if kind == "i":
        return int_coef()
    if kind == "f":
        # value = c/4
        return st.one_of(st.sampled_from([0, 4, -4, 8, 2]), st.integers(-12, 12))
    # complex: (re + im j)/2
    return st.tuples(
        st.one_of(st.sampled_from([0, 2, -2]), st.integers(-6, 6)),
        st.one_of(st.sampled_from([0, 0, 2, -2]), st.integers(-6, 6)),
    ).map(list)


def size_of(shape):
    n = 1
    for s in shape:
        n *= s
    return n


@st.composite
def poly_desc(draw, names=None, shape=None, kind=None, max_terms=6, max_exp=3,
              max_ndim=3, min_terms=0, retain=None, kinds="ifc", name_pool=None,
              max_names=4):
    if names is None:
        names = draw(names_st(pool=name_pool, max_size=max_names))
    if shape is None:
        shape = draw(shape_st(max_ndim))
    shape = tuple(shape)
    if kind is None:
        kind = draw(st.sampled_from(list(kinds)))
    size = size_of(shape)
    nterms = draw(st.integers(min_terms, max_terms))
    rows = draw(st.lists(
        st.lists(st.integers(0, max_exp), min_size=len(names), max_size=len(names)),
        min_size=nterms, max_size=nterms, unique_by=tuple))
    if rows and draw(st.integers(0, 3)) == 0 and [0] * len(names) not in rows:
        rows[0] = [0] * len(names)
    terms = []
    for row in rows:
        coefs = draw(st.lists(coef_st(kind), min_size=size, max_size=size))
        terms.append([row, coefs])
    if retain is None:
        retain = draw(st.integers(0, 7)) == 0
    return {"names": list(names), "shape": list(shape), "kind": kind,
            "terms": terms, "retain": bool(retain)}


def broadcast_member(draw, target):
    """A shape that broadcasts to target: drop leading axes / set axes to 1."""
    target = tuple(target)
    drop = draw(st.integers(0, len(target)))
    if draw(st.booleans()):
        drop = 0
    shp = list(target[drop:])
    for i in range(len(shp)):
        if draw(st.integers(0, 3)) == 0:
            shp[i] = 1
    return tuple(shp)


@st.composite
def related_names(draw, base, name_pool=None, how=None):
    """Name set related to base: equal / overlapping / disjoint."""
    pool = name_pool or NAME_POOL
    how = draw(st.sampled_from(how or ["equal", "equal", "overlap", "disjoint", "free"]))
    if how == "equal":
        return list(base)
    if how == "free":
        return draw(names_st(pool=pool))
    others = [n for n in pool if n not in base]
    if how == "disjoint" and others:
        out = draw(st.lists(st.sampled_from(others), min_size=1, max_size=3,
                            unique=True))
    else:
        keep = draw(st.lists(st.sampled_from(list(base)), min_size=1,
                             max_size=len(base), unique=True))
        extra = draw(st.lists(st.sampled_from(others), min_size=0, max_size=2,
                              unique=True)) if others else []
        out = keep + extra
    return sorted(out, key=var_num)


@st.composite
def numeric_desc(draw, shape=None, kind=None, kinds="ifc", scalar_ok=True,
                 nonneg=False):
    if kind is None:
        kind = draw(st.sampled_from(list(kinds)))
    how_opts = ["list", "array", "array"]
    if shape is None or tuple(shape) == ():
        if scalar_ok:
            how_opts += ["py", "py", "npscalar"]
        shape = () if shape is None else shape
    how = draw(st.sampled_from(how_opts))
    shape = tuple(shape)
    if how == "py":
        how = {"i": "pyint", "f": "pyfloat", "c": "pycomplex", "b": "pybool"}[kind]
        if kind == "i" and draw(st.integers(0, 9)) == 0:
            how = "pybool"
    size = size_of(shape)
    vals = draw(st.lists(coef_st(kind), min_size=size, max_size=size))
    if nonneg:
        vals = [abs(v) if not isinstance(v, list) else [abs(v[0]), abs(v[1])]
                for v in vals]
    d = {"num": how, "shape": list(shape), "kind": kind, "values": vals}
    if how == "array":
        d["order"] = draw(st.sampled_from(["C", "C", "F"]))
        d["view"] = draw(st.integers(0, 4)) == 0
        d["readonly"] = draw(st.integers(0, 4)) == 0
    return d


@st.composite
def operand_family(draw, n=2, max_ndim=3, kinds="ifc", same_kind=False,
                   numeric_prob=0.0, max_terms=6, max_exp=3, name_pool=None,
                   derived_prob=0.25):
    """n operand descriptions with broadcast-compatible shapes."""
    target = draw(shape_st(max_ndim))
    base_names = draw(names_st(pool=name_pool))
    kind0 = draw(st.sampled_from(list(kinds)))
    out = []
    for i in range(n):
        shp = target if i == 0 and draw(st.booleans()) else broadcast_member(draw, target)
        kind = kind0 if same_kind or draw(st.integers(0, 2)) else draw(
            st.sampled_from(list(kinds)))
        if numeric_prob and draw(st.floats(0, 1)) < numeric_prob:
            out.append(draw(numeric_desc(shape=shp, kind=kind)))
            continue
        if i and out and "num" not in out[0] and draw(st.floats(0, 1)) < derived_prob:
            out.append(derive(draw, out[0], shp))
            continue
        names = base_names if i == 0 else draw(related_names(base_names, name_pool))
        out.append(draw(poly_desc(names=names, shape=shp, kind=kind,
                                  max_terms=max_terms, max_exp=max_exp)))
    return out


def derive(draw, base, shape):
    """Second operand sharing exponent rows with `base` (ties, cancellation)."""
    size = size_of(shape)
    bsize = size_of(tuple(base["shape"]))
    how = draw(st.sampled_from(["negate", "same_exps", "subset", "copy"]))
    terms = []
    src = list(base["terms"])
    if how == "subset" and src:
        keep = draw(st.lists(st.booleans(), min_size=len(src), max_size=len(src)))
        src = [t for t, k in zip(src, keep) if k]
    for row, coefs in src:
        if how in ("negate", "copy") and size == bsize and tuple(shape) == tuple(base["shape"]):
            if how == "negate":
                cs = [(-c if not isinstance(c, list) else [-c[0], -c[1]]) for c in coefs]
            else:
                cs = list(coefs)
        else:
            cs = draw(st.lists(coef_st(base["kind"]), min_size=size, max_size=size))
        terms.append([list(row), cs])
    return {"names": list(base["names"]), "shape": list(shape), "kind": base["kind"],
            "terms": terms, "retain": False}


def axis_st(ndim, allow_none=True, allow_neg=True):
    opts = []
    if allow_none:
        opts.append(None)
    opts += list(range(ndim))
    if allow_neg:
        opts += list(range(-ndim, 0))
    return st.sampled_from(opts)
