"""Runner: workers, collect -> bucket -> shrink, evidence, exit codes."""
import collections
import importlib
import json
import os
import random
import signal
import subprocess
import sys
import time
import traceback

ROOT = os.path.dirname(os.path.dirname(os.path.abspath(__file__)))
REPO = os.path.abspath(os.environ.get("VERIF_REPO", "/repo"))
EVID = os.environ.get("VERIF_EVID_DIR") or os.path.join(ROOT, "evidence")
PY = sys.executable

ALL_PROPS = ["C%02d" % i for i in range(1, 21)]


class Failure:
    def __init__(self, bucket, message, case=None):
        self.bucket = bucket
        self.message = message
        self.case = case  # optional minimal replay case (enumerations)

    def __repr__(self):
        return "Failure(%r, %r)" % (self.bucket, self.message)


class Inconclusive(BaseException):
    pass


class HarnessError(Exception):
    pass


class Ctx:
    """Per-worker statistics; per-case flags are reset by begin()."""

    def __init__(self, tier="quick"):
        self.tier = tier
        self.labels = collections.Counter()
        self.case_labels = set()
        self.is_nontrivial = False
        self.extra_evals = 0
        self.extra_nontrivial = 0
        self.discard = None
        self.sample_note = None
        self.chunk = False

    def begin(self):
        self.case_labels = set()
        self.is_nontrivial = False
        self.discard = None
        self.sample_note = None
        self.chunk = False

    def label(self, name):
        if name not in self.case_labels:
            self.case_labels.add(name)
            self.labels[name] += 1

    def nontrivial(self, flag=True):
        if flag:
            self.is_nontrivial = True

    def add_evals(self, n, nontrivial=0):
        """Sub-evaluations inside one (chunk) case, distinct by construction."""
        self.extra_evals += int(n)
        self.extra_nontrivial += int(nontrivial)
        self.chunk = True

    def discard_case(self, why):
        self.discard = why

    def note(self, obj):
        self.sample_note = obj


def bootstrap():
    """Put the repository under test first on sys.path and import numpoly."""
    if sys.path[0] != REPO:
        sys.path.insert(0, REPO)
    if ROOT not in sys.path:
        sys.path.insert(1, ROOT)
    deps = os.path.join(ROOT, ".deps")
    if os.path.isdir(deps) and deps not in sys.path:
        sys.path.append(deps)
    import numpoly  # noqa

    where = os.path.abspath(numpoly.__file__)
    if not where.startswith(REPO + os.sep):
        raise HarnessError("numpoly imported from %s, not %s" % (where, REPO))
    return numpoly


def load_prop(pid):
    return importlib.import_module("pbt.props.%s" % pid.lower())


def numpoly_frame(tb):
    """Innermost numpoly frame 'file:function' of a traceback, or None."""
    found = None
    for fs in traceback.extract_tb(tb):
        fn = os.path.abspath(fs.filename)
        if fn.startswith(REPO + os.sep) and os.sep + "numpoly" + os.sep in fn:
            found = "%s:%s" % (os.path.relpath(fn, REPO), fs.name)
    return found


def exc_bucket(prefix, exc):
    frame = numpoly_frame(exc.__traceback__)
    return "%s:%s:%s" % (prefix, type(exc).__name__, frame or "harness")


# ------------------------------------------------------------------ worker

def _alarm(signum, frame):
    raise Inconclusive("per-case watchdog")


class Worker:
    def __init__(self, pid, tier, seed, shard, nshards, tag=None):
        self.pid = pid
        self.tier = tier
        self.seed = seed
        self.shard = shard
        self.nshards = nshards
        self.numpoly = bootstrap()
        from . import hooks

        self.hooks = hooks
        hooks.install()
        self.mod = load_prop(pid)
        self.ctx = Ctx(tier)
        self.evals = 0
        self.hashes = set()
        self.samples = []
        self.sample_labels = set()
        self.failures = {}  # bucket -> dict(count, case, message)
        self.discarded = collections.Counter()
        self.inconclusive = 0
        self.monitor_aborts = 0
        self.harness_errors = []
        os.makedirs(os.path.join(EVID, "journal"), exist_ok=True)
        self.journal_path = os.path.join(
            EVID, "journal", "%s.jsonl" % (tag or "%s-%s-%d" % (pid, tier, shard)))
        self.journal = open(self.journal_path, "w")
        self.journal_bytes = 0
        signal.signal(signal.SIGALRM, _alarm)

    def _journal(self, case):
        line = json.dumps(case, default=str)
        if self.journal_bytes > 4_000_000:
            self.journal.close()
            with open(self.journal_path) as fh:
                tail = fh.readlines()[-20:]
            self.journal = open(self.journal_path, "w")
            self.journal.writelines(tail)
            self.journal_bytes = sum(len(t) for t in tail)
        self.journal.write(line + "\n")
        self.journal.flush()
        self.journal_bytes += len(line) + 1

    def run_case(self, case, record=True):
        """Execute one case; returns list of Failure (never raises)."""
        from .conv import case_hash, BuilderMismatch

        ctx = self.ctx
        ctx.begin()
        if record:
            self._journal(case)
        else:
            saved = (collections.Counter(ctx.labels), ctx.extra_evals, ctx.extra_nontrivial)
        self.hooks.reset_case(self.numpoly)
        fails = []
        # repeating timer: an exception raised by the handler inside a destructor / callback is
        # swallowed by the interpreter, so the watchdog must be able to bark again
        signal.setitimer(signal.ITIMER_REAL,
                         float(os.environ.get("VERIF_CASE_TIMEOUT", "30" if self.tier == "quick" else "120")), 5.0)
        try:
            fails = list(self.mod.check_case(case, ctx) or [])
        except Inconclusive:
            self.inconclusive += 1
            return []
        except self.hooks.DivisionLoop as err:
            if self.pid == "C05":
                fails = [Failure("poly_divmod:nonterminating:%s" % err.kind, str(err))]
            else:
                self.monitor_aborts += 1
                return []
        except BuilderMismatch as err:
            if getattr(self.mod, "OWNS_CONSTRUCTION", False):
                fails = [Failure("builder:mismatch", str(err))]
            else:
                self.discarded["builder-mismatch"] += 1
                return []
        except MemoryError:
            self.inconclusive += 1
            return []
        except Exception as err:  # escaped the check
            frame = numpoly_frame(err.__traceback__)
            tb = traceback.format_exc()
            if frame is None:
                self.harness_errors.append(tb[-1500:])
                return []
            fails = [Failure(exc_bucket("escape", err), tb[-1200:])]
        finally:
            signal.setitimer(signal.ITIMER_REAL, 0)
            self.hooks.reset_case(self.numpoly)
        if ctx.discard:
            self.discarded[ctx.discard] += 1
            return []
        if not record:
            ctx.labels, ctx.extra_evals, ctx.extra_nontrivial = saved
            return fails
        if not ctx.chunk:
            self.evals += 1
        if ctx.is_nontrivial:
            self.hashes.add(case_hash(case))
        new_labels = ctx.case_labels - self.sample_labels
        # samples: the first two cases as generated, then only non-trivial ones that show a new label
        if len(self.samples) < 12 and (len(self.samples) < 2 or (
                (ctx.is_nontrivial or ctx.chunk) and (new_labels or len(self.samples) < 5))):
            self.sample_labels |= ctx.case_labels
            smp = {"case": case, "labels": sorted(ctx.case_labels),
                   "nontrivial": ctx.is_nontrivial}
            if ctx.sample_note is not None:
                smp["note"] = ctx.sample_note
            self.samples.append(smp)
        for f in fails:
            ent = self.failures.setdefault(
                f.bucket, {"count": 0, "case": f.case or case, "message": f.message,
                           "stratum": getattr(self, "current_stratum", None),
                           "salt": getattr(self, "current_salt", 0)})
            ent["count"] += 1
        return fails

    # -- phases
    def run_random(self, budget):
        """One Hypothesis run, or one per stratum when the module stratifies its input space
        (STRATA(tier) + strategy_for(tier, stratum)): every stratum gets the same share."""
        strata = getattr(self.mod, "STRATA", None)
        if strata is None:
            return self._run_random(self.mod.strategy(self.tier), budget, None, 0)
        names = list(strata(self.tier))
        share = max(1, -(-budget // len(names)))
        for i, name in enumerate(names):
            self._run_random(self.mod.strategy_for(self.tier, name), share, name, i + 1)

    def _run_random(self, strat, budget, stratum, salt):
        import hypothesis
        from hypothesis import HealthCheck, Phase, given, settings

        self.current_stratum = stratum
        self.current_salt = salt
        sett = settings(
            max_examples=budget, database=None, deadline=None,
            derandomize=False, report_multiple_bugs=False,
            phases=[Phase.generate],
            suppress_health_check=[HealthCheck.too_slow, HealthCheck.data_too_large,
                                   HealthCheck.large_base_example],
        )
        worker = self

        @hypothesis.seed((self.seed * 1000 + self.shard) * 1000 + salt)
        @settings(sett)
        @given(strat)
        def test(case):
            worker.run_case(case)

        test()

    def run_enum(self):
        gen = getattr(self.mod, "enumerate_cases", None)
        if gen is None:
            return 0
        n = 0
        for i, case in enumerate(gen(self.tier)):
            if i % self.nshards != self.shard:
                continue
            self.run_case(case)
            n += 1
        return n

    def shrink(self, bucket, max_calls):
        """Re-run the seeded strategy failing only for `bucket`; return minimal case."""
        import hypothesis
        from hypothesis import HealthCheck, Phase, settings

        ent = self.failures.get(bucket, {})
        stratum, salt = ent.get("stratum"), ent.get("salt", 0)
        if stratum is not None:
            strat = self.mod.strategy_for(self.tier, stratum)
        else:
            strat = self.mod.strategy(self.tier)
        calls = [0]
        worker = self

        t_end = time.time() + (45 if self.tier == "quick" else 240)

        def pred(case):
            calls[0] += 1
            # (bounded shrinking effort: only the size of the reported example depends on it)
            if calls[0] > max_calls or time.time() > t_end:
                return False
            fails = worker.run_case(case, record=False)
            return any(f.bucket == bucket for f in fails)

        sett = settings(
            max_examples=max(200, self.mod.BUDGET[self.tier] * 2), database=None,
            deadline=None, phases=[Phase.generate, Phase.shrink],
            suppress_health_check=list(HealthCheck),
        )
        try:
            return hypothesis.find(
                strat, pred, settings=sett,
                random=random.Random((self.seed * 1000 + self.shard) * 1000 + salt))
        except Exception:
            return None

    def result(self):
        return {
            "shard": self.shard,
            "evaluations": self.evals,
            "extra_evals": self.ctx.extra_evals,
            "extra_nontrivial": self.ctx.extra_nontrivial,
            "hashes": sorted(self.hashes),
            "labels": dict(self.ctx.labels),
            "samples": self.samples,
            "failures": self.failures,
            "discarded": dict(self.discarded),
            "inconclusive": self.inconclusive,
            "monitor_aborts": self.monitor_aborts,
            "harness_errors": self.harness_errors[:5],
            "n_harness_errors": len(self.harness_errors),
        }


def worker_main(args):
    t0 = time.time()
    cov = None
    if os.environ.get("VERIF_COVERAGE_DIR"):
        # optional, for tools/coverage_report.sh only: which numpoly lines do the generated cases execute?
        import coverage
        cov = coverage.Coverage(data_file=os.path.join(os.environ["VERIF_COVERAGE_DIR"], ".coverage"), data_suffix=True,
                                source=[os.path.join(REPO, "numpoly")])
        cov.start()
    w = Worker(args.property, args.tier, args.seed, args.shard, args.nshards,
               tag=os.path.basename(args.out)[:-5])
    known = load_known().get(args.property, {})
    out = {"mode": args.mode}
    try:
        if args.mode == "replay":
            res = []
            for path in args.files:
                with open(path) as fh:
                    rep = json.load(fh)
                cases = rep["cases"] if "cases" in rep else [rep["case"]]
                fails = []
                for case in cases:
                    fails += w.run_case(case)
                res.append({"file": path, "bucket": rep.get("bucket"),
                            "expect": rep.get("expect", "pass"),
                            "failures": [[f.bucket, f.message] for f in fails]})
            out["replays"] = res
        else:
            n_enum = 0
            if args.mode in ("all", "enum"):
                n_enum = w.run_enum()
            out["enum_cases"] = n_enum
            if args.mode in ("all", "random"):
                budget = int(os.environ.get("VERIF_BUDGET", w.mod.BUDGET[args.tier]))
                if budget > 0:
                    w.run_random(budget)
            extra_phase = getattr(w.mod, "run_extra", None)
            if extra_phase is not None and args.mode in ("all", "random"):
                extra_phase(w)
            # shrink unknown buckets found by the random phase
            todo = [b for b, e in w.failures.items()
                    if b not in known and not b.startswith("crash")
                    and not e.get("from_enum")]
            limit = 1 if args.tier == "quick" else 4
            max_calls = 400 if args.tier == "quick" else 3000
            for b in todo[:limit]:
                if getattr(w.mod, "NO_SHRINK", False):
                    break
                small = w.shrink(b, max_calls)
                if small is not None:
                    # message from the minimal case
                    fails = w.run_case(small, record=False)
                    msg = next((f.message for f in fails if f.bucket == b), None)
                    w.failures[b]["shrunk"] = small
                    if msg:
                        w.failures[b]["shrunk_message"] = msg
    except Exception:
        out["fatal"] = traceback.format_exc()[-3000:]
    out.update(w.result())
    out["wall_s"] = time.time() - t0
    tmp = args.out + ".tmp"
    with open(tmp, "w") as fh:
        json.dump(out, fh, default=str)
    os.replace(tmp, args.out)
    if cov is not None:
        cov.stop()
        cov.save()
    # skip interpreter teardown: a corrupted heap must not turn into a hang
    sys.stdout.flush()
    os._exit(0)


# ------------------------------------------------------------------ known findings

def load_known():
    """{property: {bucket: (replay, text)}} from KNOWN_FINDINGS.txt (known: lines)."""
    out = collections.defaultdict(dict)
    path = os.path.join(ROOT, "KNOWN_FINDINGS.txt")
    if not os.path.exists(path):
        return out
    with open(path) as fh:
        for line in fh:
            line = line.strip()
            if not line.startswith("known:"):
                continue
            parts = line[len("known:"):].split()
            kv = {}
            rest = []
            for p in parts:
                if "=" in p and p.split("=", 1)[0] in ("property", "key", "replay") and p.split("=", 1)[0] not in kv:
                    k, v = p.split("=", 1)
                    kv[k] = v
                else:
                    rest.append(p)
            if "property" in kv and "key" in kv:
                out[kv["property"]][kv["key"]] = (kv.get("replay"), " ".join(rest))
    return out


# ------------------------------------------------------------------ parent

def spawn(pid, tier, seed, shard, nshards, mode, out, files=(), extra_env=None):
    env = dict(os.environ)
    env.setdefault("PYTHONHASHSEED", "0")
    env["PYTHONFAULTHANDLER"] = "1"
    env["MALLOC_CHECK_"] = "3"
    env["OMP_NUM_THREADS"] = "1"
    env["OPENBLAS_NUM_THREADS"] = "1"
    env["VERIF_REPO"] = REPO
    if extra_env:
        env.update(extra_env)
    cmd = [PY, "-B", os.path.join(ROOT, "pbt", "run.py"), "--worker",
           "--property", pid, "--tier", tier, "--seed", str(seed),
           "--shard", str(shard), "--nshards", str(nshards), "--mode", mode,
           "--out", out]
    if files:
        cmd += ["--files"] + list(files)
    log = open(out + ".log", "w")
    return subprocess.Popen(cmd, cwd=ROOT, env=env, stdout=log, stderr=log)


def versions():
    import numpy
    import hypothesis

    return {"python": sys.version.split()[0], "numpy": numpy.__version__,
            "hypothesis": hypothesis.__version__}


def write_replay(pid, bucket, case, message, tag):
    os.makedirs(os.path.join(EVID, "replays"), exist_ok=True)
    safe = "".join(ch if ch.isalnum() else "_" for ch in bucket)[:60]
    path = os.path.join(EVID, "replays", "%s-%s-%s.json" % (pid, safe, tag))
    body = {"property": pid, "bucket": bucket, "message": message,
            "versions": versions(), "expect": "pass"}
    if isinstance(case, dict) and "journal_ring" in case:
        body["cases"] = case["journal_ring"]
    else:
        body["case"] = case
    with open(path, "w") as fh:
        json.dump(body, fh, indent=1, default=str)
    return os.path.relpath(path, ROOT)


def parent_main(args):
    t0 = time.time()
    pid = args.property
    tier = os.environ.get("VERIF_TIER") or args.tier
    if tier not in ("quick", "thorough"):
        tier = "quick"
    seed = int(os.environ.get("VERIF_SEED", "1") or 1)
    os.makedirs(EVID, exist_ok=True)
    work = os.path.join(EVID, "work")
    os.makedirs(work, exist_ok=True)
    mod_known = load_known().get(pid, {})

    try:
        bootstrap()
        mod = load_prop(pid)
        modinfo = {
            "rule": mod.RULE,
            "assumptions": list(getattr(mod, "ASSUMPTIONS", [])),
            "env_configs": getattr(mod, "ENV_CONFIGS", None),
            "exhaustive": getattr(mod, "EXHAUSTIVE", False),
            "exhaustive_parts": getattr(mod, "EXHAUSTIVE_PARTS", ""),
            "level": getattr(mod, "LEVEL", "exploration"),
        }
    except Exception:
        print("harness error: cannot load property module for %s" % pid)
        traceback.print_exc()
        return 2

    violations = []   # (bucket, replay path)
    known_hit = collections.Counter()
    harness_problem = []

    # ---- explicit replay of given files
    if args.replay:
        out = os.path.join(work, "%s-replay-arg.json" % pid)
        if os.path.exists(out):
            os.remove(out)
        p = spawn(pid, tier, seed, 0, 1, "replay", out, files=args.replay)
        p.wait()
        rc = 0
        if not os.path.exists(out):
            print("VIOLATION property=%s replay=%s" % (pid, args.replay[0]))
            print("  worker died with status %s" % p.returncode)
            return 1
        res = json.load(open(out))
        for r in res.get("replays", []):
            bad = [f for f in r["failures"] if f[0] not in mod_known]
            for b, m in r["failures"]:
                if b in mod_known:
                    print("KNOWN-FINDING: property=%s %s [%s]" % (pid, mod_known[b][1], b))
            if bad:
                rc = 1
                print("VIOLATION property=%s replay=%s" % (pid, r["file"]))
                for b, m in bad[:3]:
                    print("  bucket=%s %s" % (b, m[:400]))
            else:
                print("replay %s: no unknown failure" % r["file"])
        if res.get("n_harness_errors") or res.get("fatal"):
            print("harness error during replay:", res.get("fatal") or res.get("harness_errors"))
            return 2
        return rc

    # ---- replay tier: committed regression and known-finding inputs
    rdir = os.path.join(ROOT, "replay", pid)
    rfiles = sorted(
        os.path.join(rdir, f) for f in os.listdir(rdir) if f.endswith(".json")
    ) if os.path.isdir(rdir) else []
    replay_res = []
    procs = []
    if rfiles:
        out = os.path.join(work, "%s-replay.json" % pid)
        if os.path.exists(out):
            os.remove(out)
        procs.append(("replay", out, spawn(pid, tier, seed, 0, 1, "replay", out, files=rfiles)))

    # ---- generated search
    nshards = 1 if tier == "quick" else int(os.environ.get("VERIF_SHARDS", "16"))
    configs = modinfo.get("env_configs") or [None]
    for ci, extra in enumerate(configs):
        for shard in range(nshards):
            out = os.path.join(work, "%s-%s-%d-%d.json" % (pid, tier, ci, shard))
            if os.path.exists(out):
                os.remove(out)
            procs.append(("search", out, spawn(pid, tier, seed + 7919 * ci, shard, nshards,
                                               "all", out, extra_env=extra)))
    # ---- coverage-guided campaign (thorough tier complement, modules that ask for it)
    fuzz_runs = (getattr(mod, "FUZZ_RUNS", None) or {}).get(tier, 0)
    fuzz_out = None
    if fuzz_runs and not os.environ.get("VERIF_NO_FUZZ"):
        import shutil
        fuzz_out = os.path.join(work, "%s-fuzz.json" % pid)
        corpus = os.path.join(work, "%s-fuzz-corpus" % pid)
        shutil.rmtree(corpus, ignore_errors=True)
        if os.path.exists(fuzz_out):
            os.remove(fuzz_out)
        env = dict(os.environ, PYTHONHASHSEED="0", VERIF_REPO=REPO, OMP_NUM_THREADS="1")
        flog = open(fuzz_out + ".log", "w")
        fproc = subprocess.Popen([PY, "-B", os.path.join(ROOT, "pbt", "fuzz.py"), "--property", pid,
                                  "--runs", str(fuzz_runs), "--seed", str(seed), "--out", fuzz_out,
                                  "--corpus", corpus], cwd=ROOT, env=env, stdout=flog, stderr=flog)
    results = []
    for kind, out, p in procs:
        p.wait()
        if not os.path.exists(out):
            # crashed: journal ring is the replay
            ring = []
            jpath = None
            if kind == "search":
                jpath = os.path.join(EVID, "journal", os.path.basename(out)[:-5] + ".jsonl")
            if jpath and os.path.exists(jpath):
                with open(jpath) as fh:
                    for line in fh.readlines()[-20:]:
                        try:
                            ring.append(json.loads(line))
                        except ValueError:
                            pass
            sig = -p.returncode if p.returncode and p.returncode < 0 else p.returncode
            bucket = "crash:%s" % sig
            logtail = ""
            try:
                logtail = open(out + ".log").read()[-1500:]
            except OSError:
                pass
            if kind == "replay" or not ring:
                harness_problem.append("worker %s died (status %s) without journal: %s"
                                       % (kind, p.returncode, logtail))
                if kind == "replay":
                    path = write_replay(pid, bucket, {"journal_ring": []}, logtail, "replaytier")
                    violations.append((bucket, path, "replay tier crashed the interpreter"))
                continue
            if bucket in mod_known:
                known_hit[bucket] += 1
            else:
                path = write_replay(pid, bucket, {"journal_ring": ring}, logtail, "s%d" % seed)
                violations.append((bucket, path, "worker died: " + logtail[-300:]))
            continue
        res = json.load(open(out))
        if kind == "replay":
            replay_res = res.get("replays", [])
            if res.get("fatal") or res.get("n_harness_errors"):
                harness_problem.append("replay tier: %s" % (res.get("fatal") or res.get("harness_errors")))
        else:
            results.append(res)
            if res.get("fatal"):
                harness_problem.append("worker fatal: %s" % res["fatal"])
            if res.get("n_harness_errors"):
                harness_problem.append("harness exceptions (%d): %s" % (
                    res["n_harness_errors"], res["harness_errors"][:1]))

    fuzz_info = None
    if fuzz_out:
        try:
            fproc.wait(timeout=int(os.environ.get("VERIF_FUZZ_TIMEOUT", "1500")))
        except subprocess.TimeoutExpired:
            fproc.kill()
        try:
            fuzz_info = json.load(open(fuzz_out))
        except Exception:
            fuzz_info = {"skipped": "no result file (status %s)" % fproc.returncode}
        import shutil
        shutil.rmtree(os.path.join(work, "%s-fuzz-corpus" % pid), ignore_errors=True)
        if fuzz_info.get("failure"):
            f = fuzz_info["failure"]
            if f["bucket"] in mod_known:
                known_hit[f["bucket"]] += 1
            else:
                path = write_replay(pid, f["bucket"], f["case"], f["message"], "fuzz-s%d" % seed)
                violations.append((f["bucket"], path, "[coverage-guided campaign] " + f["message"]))
        fuzz_info = {k: v for k, v in fuzz_info.items() if k not in ("failure", "labels")}

    # ---- merge
    evals = sum(r["evaluations"] for r in results)
    extra = sum(r["extra_evals"] for r in results)
    extra_nt = sum(r["extra_nontrivial"] for r in results)
    hashes = set()
    labels = collections.Counter()
    samples = []
    discarded = collections.Counter()
    inconclusive = monitor_aborts = 0
    buckets = {}
    for r in results:
        hashes.update(r["hashes"])
        labels.update(r["labels"])
        discarded.update(r["discarded"])
        inconclusive += r["inconclusive"]
        monitor_aborts += r["monitor_aborts"]
        if len(samples) < 12:
            samples += r["samples"][: max(2, 12 // max(1, len(results)))]
        for b, e in r["failures"].items():
            ent = buckets.setdefault(b, dict(e))
            if ent is not e:
                ent["count"] += e["count"]
                if "shrunk" in e and "shrunk" not in ent:
                    ent["shrunk"] = e["shrunk"]
                    ent["shrunk_message"] = e.get("shrunk_message")

    # replay tier verdicts
    replayed = 0
    for r in replay_res:
        replayed += 1
        for b, m in r["failures"]:
            if b in mod_known:
                known_hit[b] += 1
            else:
                violations.append((b, os.path.relpath(r["file"], ROOT), m))
    for b, e in buckets.items():
        if b in mod_known:
            known_hit[b] += e["count"]
            continue
        case = e.get("shrunk") or e["case"]
        msg = e.get("shrunk_message") or e["message"]
        path = write_replay(pid, b, case, msg, "s%d" % seed)
        violations.append((b, path, msg))

    for b, (rep, text) in sorted(mod_known.items()):
        print("KNOWN-FINDING: property=%s %s [key=%s hits=%d]" % (pid, text, b, known_hit.get(b, 0)))

    total_evals = evals + extra + int((fuzz_info or {}).get("execs", 0) or 0)
    n_nontrivial = len(hashes) + extra_nt
    total_cases = evals + sum(discarded.values())
    if total_cases and sum(discarded.values()) > 0.2 * total_cases:
        harness_problem.append("more than 20%% of cases discarded: %s" % dict(discarded))
    if evals and inconclusive > max(1, 0.01 * evals):
        harness_problem.append("%d inconclusive cases" % inconclusive)
    if total_evals < 1 and not violations:
        harness_problem.append("no evaluations")

    evidence = {
        "property_id": pid,
        "tier": tier,
        "seed": seed,
        "level": modinfo.get("level", "exploration"),
        "coverage": {
            "evaluations": total_evals,
            "distinct_nontrivial": n_nontrivial,
            "rule": modinfo["rule"],
            "samples": samples[:12] or [{"note": "no sample recorded"}],
            "labels": dict(sorted(labels.items())),
            "generated_cases": evals,
            "enumerated_sub_evaluations": extra,
            "known_findings_hit": dict(known_hit),
            "discarded_inputs": dict(discarded),
            "inconclusive": inconclusive,
            "aborted_by_division_monitor": monitor_aborts,
            "replayed": replayed,
            "shards": len(results),
            "env_configs": [c or {} for c in configs],
            "exhaustive": bool(modinfo.get("exhaustive", False)),
            "exhaustive_parts": modinfo.get("exhaustive_parts", ""),
            "unknown_buckets": sorted(b for b, _, _ in violations),
            "versions": versions(),
            "harness_problems": harness_problem[:5],
            "coverage_guided_campaign": fuzz_info or "not part of this tier/property",
        },
        "assumptions": modinfo.get("assumptions", []),
        "wall_s": round(time.time() - t0, 2),
        "violations": len(violations),
    }
    with open(os.path.join(EVID, "%s.json" % pid), "w") as fh:
        json.dump(evidence, fh, indent=1, default=str)

    print("%s %s seed=%d: %d evaluations (%d generated, %d enumerated), %d distinct non-trivial, "
          "%d replayed, %d discarded, %d inconclusive, %.1fs"
          % (pid, tier, seed, total_evals, evals, extra, n_nontrivial, replayed,
             sum(discarded.values()), inconclusive, time.time() - t0))
    if args.verbose:
        for k, v in sorted(labels.items()):
            print("   %-50s %d" % (k, v))
    seen = set()
    for b, path, msg in violations:
        if b in seen:
            continue
        seen.add(b)
        print("VIOLATION property=%s replay=%s" % (pid, path))
        print("  bucket=%s" % b)
        print("  " + (msg or "")[:600].replace("\n", "\n  "))
    if violations:
        return 1
    if harness_problem:
        for h in harness_problem:
            print("harness error: %s" % h[:1500])
        return 2
    return 0
