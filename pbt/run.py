#!/venv/bin/python
"""Single entry point: --property Cxx --tier quick|thorough [--replay F ...]"""
import argparse
import os
import sys

sys.path.insert(0, os.path.dirname(os.path.dirname(os.path.abspath(__file__))))
sys.dont_write_bytecode = True

from pbt import core  # noqa: E402


def main():
    ap = argparse.ArgumentParser()
    ap.add_argument("--property", required=True)
    ap.add_argument("--tier", default="quick")
    ap.add_argument("--replay", nargs="*")
    ap.add_argument("--verbose", "-v", action="store_true")
    ap.add_argument("--worker", action="store_true")
    ap.add_argument("--seed", type=int, default=1)
    ap.add_argument("--shard", type=int, default=0)
    ap.add_argument("--nshards", type=int, default=1)
    ap.add_argument("--mode", default="all")
    ap.add_argument("--out")
    ap.add_argument("--files", nargs="*", default=[])
    args = ap.parse_args()
    if args.worker:
        core.worker_main(args)
        return 0
    try:
        return core.parent_main(args)
    except Exception:
        import traceback

        traceback.print_exc()
        print("harness error: internal exception in the runner")
        return 2


if __name__ == "__main__":
    sys.exit(main())
