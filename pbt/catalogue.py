"""Operation catalogue: one recipe per public callable.

A recipe draws a JSON-able call description
    {"fn": name, "args": [...], "kw": {...}}
in which polynomial(-like) operands are written inline as {"$p": <operand desc>} and
lists of operands as {"$pl": [<desc>, ...]}; {"$np": {"dtype":..,"shape":..,"v":[..]}} is a
plain numpy array argument (index arrays, conditions, repeats), {"$fn": "sum"} a callable,
{"$dtype": "float32"} a dtype, {"$tuple": [...]} a tuple.

`resolve(x, how)` turns a description into live objects (how="live"), model object arrays
(how="model") or raw numeric arrays (how="raw"; only for numeric operand descriptions).
"""
import numpy
from hypothesis import strategies as st

from . import gen
from .conv import build_checked, build_numeric, desc_model, numeric_model

# --------------------------------------------------------------------- operand generators


class PolyOperands:
    """Operands are polynomial arrays (descriptions from gen.poly_desc)."""

    mode = "poly"

    def __init__(self, max_terms=4, max_exp=2, kinds="if", max_names=3, sorted_names=False):
        self.max_terms, self.max_exp, self.kinds, self.max_names = max_terms, max_exp, kinds, max_names
        self.sorted_names = sorted_names

    def array(self, draw, shape=None, min_ndim=0, max_ndim=3, names=None, kind=None):
        if shape is None:
            shape = draw(gen.shape_st(max_ndim, min_ndim))
        if names is None:
            names = draw(gen.names_st(max_size=self.max_names))
            if self.sorted_names:
                names = sorted(names, key=gen.var_num)
        return draw(gen.poly_desc(names=names, shape=tuple(shape), kind=kind, kinds=self.kinds,
                                  max_terms=self.max_terms, max_exp=self.max_exp, retain=False))

    def related(self, draw, base, shape, kind=None):
        names = draw(gen.related_names(base["names"])) if "names" in base else None
        if kind is None:
            # mostly the same coefficient kind, sometimes another one (mixed dtypes)
            kind = base.get("kind") if draw(st.integers(0, 2)) else draw(st.sampled_from(list(self.kinds)))
            if base.get("kind") == "i" and "f" in self.kinds and draw(st.integers(0, 3)) == 0:
                kind = "f"  # narrower kind first, wider later: joins must take numpy's promoted dtype
        return self.array(draw, shape=shape, names=names, kind=kind)


class ConstOperands:
    """Operands are numeric arrays; live objects are constant polynomials (C11)."""

    mode = "const"

    def __init__(self, kinds="if"):
        self.kinds = kinds

    def array(self, draw, shape=None, min_ndim=0, max_ndim=3, names=None, kind=None):
        if shape is None:
            shape = draw(gen.shape_st(max_ndim, min_ndim))
        if kind is None:
            kind = draw(st.sampled_from(list(self.kinds)))
        size = gen.size_of(tuple(shape))
        # repeated values, negatives, zeros
        pool = [0, 1, -1, 2, 3, -2, 2, 1] if kind == "i" else [0, 4, -4, 2, 6, -6, 10, 4, 1, -3]
        vals = draw(st.lists(st.sampled_from(pool), min_size=size, max_size=size))
        return {"num": "array", "shape": list(shape), "kind": kind, "values": vals, "const": True}

    def related(self, draw, base, shape, kind=None):
        if kind is None:
            # mostly the same kind, sometimes the other one (int with float: numpy promotes)
            kind = base.get("kind") if draw(st.booleans()) else draw(st.sampled_from(list(self.kinds)))
            if base.get("kind") == "i" and "f" in self.kinds and draw(st.integers(0, 2)) == 0:
                kind = "f"  # narrower kind first, wider second: results must take numpy's promoted dtype
        return self.array(draw, shape=shape, kind=kind)


def P(desc):
    return {"$p": desc}


def NP(values, dtype="int64", shape=None):
    arr = numpy.array(values, dtype=dtype)
    return {"$np": {"dtype": dtype, "shape": list(arr.shape if shape is None else shape),
                    "v": arr.ravel().tolist()}}


def resolve(x, how):
    """how: 'live' | 'model' | 'raw'."""
    if isinstance(x, dict):
        if "$p" in x:
            return _operand(x["$p"], how)
        if "$pl" in x:
            return [_operand(d, how) for d in x["$pl"]]
        if "$np" in x:
            d = x["$np"]
            arr = numpy.array(d["v"], dtype=d["dtype"]).reshape(tuple(d["shape"]))
            if "vi" in d:  # imaginary parts of a complex array
                arr = arr + 1j * numpy.array(d["vi"], dtype=d["dtype"]).reshape(tuple(d["shape"]))
            return arr
        if "$tuple" in x:
            return tuple(resolve(i, how) for i in x["$tuple"])
        if "$dtype" in x:
            return numpy.dtype(x["$dtype"])
        if "$npint" in x:
            return numpy.int64(x["$npint"])
        if "$fn" in x:
            return _callable(x["$fn"], how)
        return {k: resolve(v, how) for k, v in x.items()}
    if isinstance(x, list):
        return [resolve(i, how) for i in x]
    return x


def _operand(desc, how):
    if "num" in desc:
        if how == "model":
            return numeric_model(desc)
        raw = build_numeric(desc)
        if how == "raw":
            return raw
        if desc.get("const"):
            import numpoly
            return numpoly.polynomial(raw)
        return raw
    if how == "model":
        return desc_model(desc)
    if how == "raw":
        raise ValueError("polynomial operand has no raw numeric form")
    return build_checked(desc)[0]


def _callable(name, how):
    import numpoly
    if name == "reverse":
        return lambda x: x[::-1]
    if name == "double":
        return lambda x: x + x
    mod = numpoly if how == "live" else numpy
    return getattr(mod, name)


def operand_descs(x):
    """All operand descriptions inside a call description."""
    out = []
    if isinstance(x, dict):
        if "$p" in x:
            return [x["$p"]]
        if "$pl" in x:
            return list(x["$pl"])
        for v in x.values():
            out += operand_descs(v)
    elif isinstance(x, list):
        for v in x:
            out += operand_descs(v)
    return out


# --------------------------------------------------------------------- recipes

class Recipe:
    def __init__(self, name, family, gen_fn, result="poly", np_name="same", method=None,
                 operator=None, reduce=None, accumulate=None, flags=(), cost=1):
        self.name = name
        self.family = family
        self.gen = gen_fn
        self.result = result
        self.np_name = name if np_name == "same" else np_name
        self.method = method
        self.operator = operator
        self.reduce = reduce
        self.accumulate = accumulate
        self.flags = set(flags)
        self.cost = cost


RECIPES = {}


def recipe(name, family, **kw):
    def deco(fn):
        RECIPES[name] = Recipe(name, family, fn, **kw)
        return fn
    return deco


def axis_of(draw, ndim, none=True, neg=True, tuples=False):
    opts = ([None] if none else []) + list(range(ndim)) + (list(range(-ndim, 0)) if neg else [])
    if tuples and ndim >= 2:
        opts += [{"$tuple": [0, 1]}, {"$tuple": [-1, 0]}, {"$tuple": [0, -1]}, {"$tuple": [-1, -2]}, {"$tuple": [-1]}]
        if ndim >= 3:
            opts += [{"$tuple": [0, 2]}, {"$tuple": [0, 1, 2]}]
    if ndim:
        # an axis given as a numpy integer (what numpy.argmax & co. return) is an int for numpy
        opts += [{"$npint": 0}, {"$npint": ndim - 1}] + ([{"$npint": -1}] if neg else [])
    return draw(st.sampled_from(opts))


def ndim_of(desc):
    return len(desc["shape"])


# ---- element-wise unary / binary

def _unary(name, **kw):
    @recipe(name, "elementwise-unary", **kw)
    def g(draw, og):
        return {"args": [P(og.array(draw))], "kw": {}}


_unary("negative", operator="neg")
_unary("positive", operator="pos")
_unary("square")
_unary("absolute", operator="abs", flags=("coefficientwise",))
for _n in ("rint", "ceil", "floor"):
    _unary(_n, flags=("coefficientwise", "rounding"))


@recipe("around", "rounding", method="round", flags=("coefficientwise", "rounding"))
def _around(draw, og):
    return {"args": [P(og.array(draw, kind="f"))], "kw": {"decimals": draw(st.integers(-1, 2))}}


def _pair(draw, og, kind=None, max_ndim=3):
    # (0-d against 0-d takes its own code path in many functions: keep it frequent)
    target = () if draw(st.integers(0, 5)) == 0 else draw(gen.shape_st(max_ndim))
    a = og.array(draw, shape=target if draw(st.booleans()) else gen.broadcast_member(draw, target), kind=kind)
    b = og.related(draw, a, gen.broadcast_member(draw, target) if draw(st.booleans()) else target)
    return a, b


def _binary(name, family="elementwise-binary", **kw):
    @recipe(name, family, **kw)
    def g(draw, og):
        a, b = _pair(draw, og)
        return {"args": [P(a), P(b)], "kw": {}}


_binary("add", operator="add", flags=("ring",))
_binary("subtract", operator="sub", flags=("ring",))
_binary("multiply", operator="mul", flags=("ring",), cost=2)
for _n, _o in (("equal", "eq"), ("not_equal", "ne"), ("less", "lt"), ("less_equal", "le"),
               ("greater", "gt"), ("greater_equal", "ge")):
    _binary(_n, "comparison", operator=_o, result="bool", flags=("ordering",) if _n not in ("equal", "not_equal") else ())
_binary("maximum", "selection", flags=("ordering",))
_binary("minimum", "selection", flags=("ordering",))
_binary("logical_and", "logical", result="bool")
_binary("logical_or", "logical", result="bool")


@recipe("power", "power", operator="pow", flags=("ring",), cost=3)
def _power(draw, og):
    a = og.array(draw, max_ndim=2)
    if getattr(og, "mode", "") == "const" and draw(st.integers(0, 3)) == 0:
        # on numbers numpy also takes negative and fractional exponents (or rejects them for integers)
        return {"args": [P(a), draw(st.sampled_from([-1, -2, 0.5, 1.5, 2.0, 1e30, float("inf"), 2.0 ** 63,
                                                      10 ** 9, 10 ** 5 + 1, 40]))], "kw": {}}
    if draw(st.booleans()):
        return {"args": [P(a), draw(st.integers(0, 3))], "kw": {}}
    shp = gen.broadcast_member(draw, tuple(a["shape"]))
    size = gen.size_of(shp)
    vals = draw(st.lists(st.integers(0, 3), min_size=size, max_size=size))
    return {"args": [P(a), NP(vals, shape=shp)], "kw": {}}


# ---- numeric division (constant divisors)

def _const_divisor(draw, shape, kind):
    size = gen.size_of(shape)
    pool = [1, 2, -2, 3, 4, -1, 5] if kind == "i" else [4, 8, -8, 2, 6, -4, 10]
    vals = draw(st.lists(st.sampled_from(pool), min_size=size, max_size=size))
    return {"num": "array", "shape": list(shape), "kind": kind, "values": vals, "const": True}


def _numdiv(name, **kw):
    @recipe(name, "numeric-division", flags=("division",), **kw)
    def g(draw, og):
        target = draw(gen.shape_st(2))
        kind = draw(st.sampled_from(["i", "f"]))
        a = og.array(draw, shape=target if draw(st.booleans()) else gen.broadcast_member(draw, target), kind=kind)
        b = _const_divisor(draw, gen.broadcast_member(draw, target) if draw(st.booleans()) else target, kind)
        return {"args": [P(a), P(b)], "kw": {}}


_numdiv("true_divide")
_numdiv("floor_divide", operator="floordiv")
_numdiv("remainder")
_numdiv("divmod", result="tuple")


# ---- logical / predicates

def _reduce_kw(draw, a, tuples=True, keepdims=True):
    kw = {}
    ax = axis_of(draw, ndim_of(a), tuples=tuples)
    if ax is not None or draw(st.booleans()):
        kw["axis"] = ax
    if keepdims and draw(st.booleans()):
        kw["keepdims"] = draw(st.sampled_from([True, True, False]))
        if kw["keepdims"] and ndim_of(a) >= 2 and draw(st.integers(0, 2)) == 0:
            # the kept unit axis of a negative axis sits where the axis was, counted from the end
            kw["axis"] = draw(st.sampled_from(list(range(-ndim_of(a), 0))))
    return kw


def _with_dtype(draw, kw, a):
    """Sometimes request a result dtype (one the input can be cast to under numpy's rules)."""
    if draw(st.integers(0, 4)) == 0:
        opts = {"i": ["float64", "int64", "complex128"], "f": ["float64", "complex128"]}.get(a.get("kind"), [])
        if opts:
            kw["dtype"] = {"$dtype": draw(st.sampled_from(opts))}
    return kw


def _mask(draw, a):
    """A reduction mask that leaves something out and something in (where the size allows): mostly of the
    operand's full shape, sometimes of a shape that broadcasts to it."""
    shp = tuple(a["shape"]) if draw(st.integers(0, 2)) else gen.broadcast_member(draw, tuple(a["shape"]))
    size = gen.size_of(shp)
    vals = [True] * size
    if size >= 2:
        out = draw(st.integers(1, max(1, size // 2)))
        for i in draw(st.permutations(list(range(size))))[:out]:
            vals[i] = False
    elif size == 1:
        vals = [draw(st.sampled_from([True, True, False]))]
    return NP(vals, "bool", shape=shp)


def _with_where(draw, kw, a, og, with_initial=False):
    """Sometimes a reduction mask (numeric operands only: numpy itself is the reference there)."""
    const = getattr(og, "mode", "") == "const"
    if draw(st.integers(0, 2)) == 0 and (const or with_initial):
        kw["where"] = _mask(draw, a)
        if not const:
            # (numpy needs a start value to mask a fold over objects: the exact model is such a fold)
            kw.setdefault("initial", draw(st.sampled_from([1, 2, -3])))
    return kw


@recipe("any", "logical", result="bool", method="any", reduce="logical_or")
def _any(draw, og):
    a = og.array(draw, min_ndim=1)
    return {"args": [P(a)], "kw": _with_where(draw, _reduce_kw(draw, a), a, og)}


@recipe("all", "logical", result="bool", method="all", reduce="logical_and")
def _all(draw, og):
    a = og.array(draw, min_ndim=1)
    return {"args": [P(a)], "kw": _with_where(draw, _reduce_kw(draw, a), a, og)}


@recipe("count_nonzero", "logical", result="index")
def _cnz(draw, og):
    a = og.array(draw, min_ndim=1)
    return {"args": [P(a)], "kw": _reduce_kw(draw, a)}


@recipe("nonzero", "logical", result="tuple", method="nonzero")
def _nz(draw, og):
    return {"args": [P(og.array(draw, min_ndim=1))], "kw": {}}


@recipe("isfinite", "logical", result="bool")
def _isfinite(draw, og):
    return {"args": [P(og.array(draw))], "kw": {}}


@recipe("isclose", "logical", result="bool")
def _isclose(draw, og):
    a, b = _pair(draw, og, kind="f")
    kw = {}
    if draw(st.integers(0, 2)) == 0:
        # near pairs: b is a scaled element by element, and the tolerances sit between rtol*|a| and rtol*|b|
        import copy
        a = og.array(draw, shape=draw(st.sampled_from([(4,), (6,), (2, 3), (2, 2, 2)])), kind="f")
        b = copy.deepcopy(a)
        b["kind"] = "f"
        for vals in ([b["values"]] if "values" in b else [t[1] for t in b["terms"]]):
            for i, v in enumerate(vals):
                vals[i] = v * draw(st.sampled_from([1, 1, 1.5, 2, 0.5, 1.25]))
        kw = {"rtol": draw(st.sampled_from([0.5, 0.4, 0.25, 1e-5])), "atol": draw(st.sampled_from([0.0, 1e-8]))}
    elif draw(st.integers(0, 3)):
        # coarse relative tolerances make the test |a-b| <= atol + rtol*|b| visibly asymmetric in a and b
        kw = {"rtol": draw(st.sampled_from([1e-5, 0.5, 0.5, 0.3, 0.0])),
              "atol": draw(st.sampled_from([1e-8, 0.0, 0.25, 1.0]))}
    return {"args": [P(a), P(b)], "kw": kw}


@recipe("allclose", "logical", result="bool")
def _allclose(draw, og):
    out = _isclose(draw, og)
    return out


# ---- ordering

@recipe("amax", "ordering", method="max", reduce="maximum", flags=("ordering",))
def _amax(draw, og):
    a = og.array(draw, min_ndim=1)
    kw = {}
    ax = axis_of(draw, ndim_of(a))
    if ax is not None:
        kw["axis"] = ax
    if draw(st.integers(0, 3)) == 0:
        kw["keepdims"] = True
    if getattr(og, "mode", "") == "const" and ax is None and draw(st.integers(0, 3)) == 0:
        kw["initial"] = draw(st.sampled_from([10, -10, 1, 0]))
    return {"args": [P(a)], "kw": kw}


RECIPES["amin"] = Recipe("amin", "ordering", _amax, method="min", reduce="minimum", flags=("ordering",))


@recipe("argmax", "ordering", result="index", flags=("ordering",))
def _argmax(draw, og):
    a = og.array(draw, min_ndim=1)
    kw = {}
    ax = axis_of(draw, ndim_of(a))
    if ax is not None:
        kw["axis"] = ax
    if draw(st.integers(0, 3)) == 0:
        kw["keepdims"] = True
    return {"args": [P(a)], "kw": kw}


RECIPES["argmin"] = Recipe("argmin", "ordering", _argmax, result="index", flags=("ordering",))


# ---- linear reductions

def _with_initial(draw, kw):
    """Sometimes a start value for the fold (a plain number, as numpy requires)."""
    if draw(st.integers(0, 5)) == 0:
        kw["initial"] = draw(st.sampled_from([2, 5, -3, 0]))
    return kw


def _zero_d_reduction(draw, og):
    """a single (0-d) polynomial: numpy's folds accept axis None, 0, -1 and () for it"""
    a = og.array(draw, shape=())
    kw = {}
    ax = draw(st.sampled_from([None, 0, 0, -1, {"$tuple": []}]))
    if ax is not None or draw(st.booleans()):
        kw["axis"] = ax
    return {"args": [P(a)], "kw": kw}


def _kept_negative_axis(draw, og):
    """A fold over a negative axis of an array without unit axes, the folded axis kept: the unit axis has to sit
    where the axis was (counted from the end), which the result's shape shows."""
    shape = draw(st.sampled_from([(2, 3), (3, 2), (2, 3, 2), (3, 2, 2), (2, 2, 3)]))
    a = og.array(draw, shape=shape)
    axis = draw(st.sampled_from(list(range(-len(shape), 0)) + [-1]))
    return {"args": [P(a)], "kw": {"axis": axis, "keepdims": True}}


@recipe("sum", "reduction", method="sum", reduce="add")
def _sum(draw, og):
    if draw(st.integers(0, 9)) == 0:
        return _zero_d_reduction(draw, og)
    if draw(st.integers(0, 9)) == 0:
        return _kept_negative_axis(draw, og)
    a = og.array(draw, min_ndim=1)
    return {"args": [P(a)], "kw": _with_where(draw, _with_initial(draw, _with_dtype(draw, _reduce_kw(draw, a), a)), a, og, True)}


@recipe("prod", "reduction", method="prod", reduce="multiply", cost=3)
def _prod(draw, og):
    if draw(st.integers(0, 9)) == 0:
        return _zero_d_reduction(draw, og)
    if draw(st.integers(0, 6)) == 0:
        return _kept_negative_axis(draw, og)
    a = og.array(draw, min_ndim=1)
    return {"args": [P(a)], "kw": _with_where(draw, _with_initial(draw, _with_dtype(draw, _reduce_kw(draw, a), a)), a, og, True)}


@recipe("mean", "reduction", method="mean")
def _mean(draw, og):
    if draw(st.integers(0, 9)) == 0:
        return _kept_negative_axis(draw, og)
    a = og.array(draw, min_ndim=1)
    kw = _with_dtype(draw, _reduce_kw(draw, a), a)
    if "dtype" not in kw and draw(st.integers(0, 2)) == 0:
        kw["dtype"] = {"$dtype": "complex128"}  # (a requested type that shows in the result whatever the input)
    if kw.get("dtype", {}).get("$dtype") == "int64":
        kw.pop("dtype")  # numpy's integer mean truncates: not the arithmetic mean any more
    if draw(st.integers(0, 3)) == 0:
        # a mask: the mean of the selected elements only (divided by their number, not by all)
        kw["where"] = _mask(draw, a)
        # (the mean of nothing is NaN, also for numpy: every slice keeps at least one element)
        ax = kw.get("axis")
        ax = ax.get("$npint", tuple(ax.get("$tuple", ()))) if isinstance(ax, dict) else ax
        m = numpy.array(kw["where"]["$np"]["v"], dtype=bool).reshape(tuple(kw["where"]["$np"]["shape"]))
        if not numpy.all(numpy.sum(numpy.broadcast_to(m, tuple(a["shape"])), axis=ax)):
            kw.pop("where")
    return {"args": [P(a)], "kw": kw}


@recipe("cumsum", "reduction", method="cumsum", accumulate="add")
def _cumsum(draw, og):
    a = og.array(draw, min_ndim=2 if draw(st.integers(0, 2)) == 0 else 1)
    kw = {}
    ax = axis_of(draw, ndim_of(a))
    if ndim_of(a) >= 2 and draw(st.integers(0, 2)) == 0:
        ax = 0  # the axis the ufunc spelling numpy.add.accumulate(a) uses when none is given
    if ax is not None or draw(st.booleans()):
        kw["axis"] = ax
    return {"args": [P(a)], "kw": kw}


# ---- products / linear algebra

@recipe("inner", "linalg", cost=2)
def _inner(draw, og):
    n = draw(st.integers(1, 4))
    sa, sb = (n,), (n,)
    if getattr(og, "mode", "") == "const" and draw(st.integers(0, 2)) == 0:
        # beyond vectors: a sum product over the last axes, a plain product with a scalar
        sa, sb = draw(st.sampled_from([((2, n), (n,)), ((n,), (3, n)), ((2, n), (3, n)), ((n,), ()), ((), (2, n)),
                                       ((2, 1, n), (2, n))]))
    a = og.array(draw, shape=sa)
    b = og.related(draw, a, sb)
    return {"args": [P(a), P(b)], "kw": {}}


@recipe("outer", "linalg", cost=2)
def _outer(draw, og):
    a = og.array(draw, shape=(draw(st.integers(1, 3)),))
    b = og.related(draw, a, (draw(st.integers(1, 3)),))
    return {"args": [P(a), P(b)], "kw": {}}


@recipe("matmul", "linalg", operator="matmul", cost=3)
def _matmul(draw, og):
    n, k, m = draw(st.integers(1, 3)), draw(st.integers(1, 3)), draw(st.integers(1, 3))
    form = draw(st.sampled_from(["mm", "mm", "vm", "mv", "vv", "smm", "msm", "ssm"]))
    sa, sb = {"mm": ((n, k), (k, m)), "vm": ((k,), (k, m)), "mv": ((n, k), (k,)), "vv": ((k,), (k,)),
              "smm": ((2, n, k), (k, m)), "msm": ((n, k), (2, k, m)), "ssm": ((2, n, k), (2, k, m))}[form]
    kw = {}
    if form == "ssm" and draw(st.integers(0, 2)) == 0:
        # stacked operands with the matrix axes of the result (or of an operand) somewhere else
        how = draw(st.sampled_from(["out-front", "out-mixed", "a-front"]))
        if how == "out-front":
            kw["axes"] = [{"$tuple": [-2, -1]}, {"$tuple": [-2, -1]}, {"$tuple": [0, 1]}]
        elif how == "out-mixed":
            kw["axes"] = [{"$tuple": [-2, -1]}, {"$tuple": [-2, -1]}, {"$tuple": [2, 0]}]
        else:
            sa, kw["axes"] = (n, k, 2), [{"$tuple": [0, 1]}, {"$tuple": [-2, -1]}, {"$tuple": [-2, -1]}]
    if form == "mm" and draw(st.integers(0, 4)) == 0:
        # the generalised-ufunc keyword: which axes of the operands and of the result hold the matrices
        how = draw(st.sampled_from(["a", "b", "out"]))
        if how == "a":
            sa, kw["axes"] = (k, n), [{"$tuple": [1, 0]}, {"$tuple": [0, 1]}, {"$tuple": [0, 1]}]
        elif how == "b":
            sb, kw["axes"] = (m, k), [{"$tuple": [0, 1]}, {"$tuple": [-1, -2]}, {"$tuple": [0, 1]}]
        else:
            kw["axes"] = [{"$tuple": [0, 1]}, {"$tuple": [0, 1]}, {"$tuple": [1, 0]}]
    a = og.array(draw, shape=sa)
    b = og.related(draw, a, sb)
    return {"args": [P(a), P(b)], "kw": kw}


@recipe("det", "linalg", np_name=None, cost=4)
def _det(draw, og):
    n = draw(st.sampled_from([1, 2, 2, 3, 3, 4]))
    stacked = draw(st.integers(0, 3)) == 0
    a = og.array(draw, shape=((2, n, n) if stacked else (n, n)))
    if a.get("kind") == "i" and getattr(og, "mode", "") != "const" and draw(st.integers(0, 3)) == 0:
        # integer entries too large for a double-precision determinant, small enough for int64 (exact) arithmetic
        # (not for the constant-operand comparison with numpy.linalg.det, which is itself floating-point)
        bound = {1: 2 ** 40, 2: 2 ** 30, 3: 2 ** 19, 4: 2 ** 13}[n]
        size = (2 if stacked else 1) * n * n
        big = draw(st.lists(st.integers(bound - 40, bound) | st.integers(-bound, bound), min_size=size, max_size=size))
        zero = [0] * len(a["names"])
        a["terms"] = [t for t in a["terms"] if list(t[0]) != zero] + [[zero, big]]
    return {"args": [P(a)], "kw": {}}


# ---- differences

@recipe("diff", "difference")
def _diff(draw, og):
    if draw(st.booleans()):
        a = og.array(draw, min_ndim=1)
        ax = draw(st.sampled_from(list(range(ndim_of(a))) + [-1]))
    else:
        # a longer axis, so that higher-order differences are not empty
        shape = draw(st.sampled_from([(4,), (5,), (6,), (2, 4), (4, 2), (5, 1), (2, 5)]))
        a = og.array(draw, shape=shape)
        ax = max(range(len(shape)), key=lambda i: shape[i])
        if ax == len(shape) - 1 and draw(st.booleans()):
            ax = -1
    kw = {}
    if ax != -1 or draw(st.booleans()):
        kw["axis"] = ax
    n = draw(st.sampled_from([1, 1, 2, 0, 3]))
    if n != 1:
        kw["n"] = n
    shp = list(a["shape"])
    for key in ("prepend", "append"):
        if draw(st.integers(0, 3)) == 0:
            s = list(shp)
            s[ax] = draw(st.integers(1, 2))
            kw[key] = P(og.related(draw, a, tuple(s), kind=a["kind"] if draw(st.integers(0, 2)) else None))
    return {"args": [P(a)], "kw": kw}


@recipe("ediff1d", "difference")
def _ediff1d(draw, og):
    a = og.array(draw, min_ndim=1, max_ndim=2)
    kw = {}
    for key in ("to_begin", "to_end"):
        if draw(st.booleans()):
            k = a["kind"] if a["kind"] != "f" or draw(st.booleans()) else "i"
            kw[key] = P(og.related(draw, a, (draw(st.integers(1, 2)),), kind=k))
    return {"args": [P(a)], "kw": kw}


# ---- shape functions

@recipe("reshape", "shape", method="reshape")
def _reshape(draw, og):
    order = draw(st.sampled_from([None, None, "C", "F", "F", "F"]))
    # (the element order only matters from two dimensions on)
    a = og.array(draw, min_ndim=2 if order == "F" and draw(st.integers(0, 3)) else 0)
    size = gen.size_of(tuple(a["shape"]))
    facs = [[size], [1, size], [size, 1], [-1], [1, -1]]
    for d in range(2, size):
        if size % d == 0:
            facs += [[d, size // d], [d, -1], [-1, d]]
            if (size // d) % 2 == 0 and size // d > 2:
                facs.append([d, 2, size // d // 2])
    if size == 1:
        facs += [[], [1, 1, 1]]
    shape = draw(st.sampled_from(facs))
    kw = {}
    if order is not None:
        kw["order"] = order
    return {"args": [P(a), {"$tuple": shape}], "kw": kw}


@recipe("transpose", "shape", method="transpose")
def _transpose(draw, og):
    # (a permutation differs from its inverse only from three axes on: keep those frequent)
    a = og.array(draw, min_ndim=3 if draw(st.integers(0, 2)) == 0 else 0)
    nd = ndim_of(a)
    kw = {}
    if nd >= 3 and draw(st.booleans()):
        kw["axes"] = list(draw(st.sampled_from([(1, 2, 0), (2, 0, 1), (-2, -1, 0), (2, -3, 1)])))
    elif nd and draw(st.booleans()):
        kw["axes"] = draw(st.permutations(list(range(nd))))
    return {"args": [P(a)], "kw": kw}


@recipe("moveaxis", "shape")
def _moveaxis(draw, og):
    a = og.array(draw, min_ndim=1)
    nd = ndim_of(a)
    if nd >= 2 and draw(st.booleans()):
        src = draw(st.lists(st.integers(0, nd - 1), min_size=1, max_size=nd, unique=True))
        dst = draw(st.lists(st.integers(-nd, nd - 1), min_size=len(src), max_size=len(src),
                            unique_by=lambda v: v % nd))
        return {"args": [P(a), src, dst], "kw": {}}
    return {"args": [P(a), draw(st.integers(-nd, nd - 1)), draw(st.integers(-nd, nd - 1))], "kw": {}}


@recipe("expand_dims", "shape")
def _expand_dims(draw, og):
    a = og.array(draw, max_ndim=2)
    nd = ndim_of(a)
    return {"args": [P(a)], "kw": {"axis": draw(st.integers(-nd - 1, nd))}}


for _n in ("atleast_1d", "atleast_2d", "atleast_3d"):
    @recipe(_n, "shape")
    def _atleast(draw, og):
        return {"args": [P(og.array(draw))], "kw": {}}


@recipe("repeat", "shape", method="repeat")
def _repeat(draw, og):
    a = og.array(draw)
    nd = ndim_of(a)
    ax = draw(st.sampled_from([None] + list(range(nd)) + ([-1] if nd else [])))
    n = gen.size_of(tuple(a["shape"])) if ax is None else a["shape"][ax]
    if draw(st.booleans()):
        reps = draw(st.integers(0, 3))
    else:
        reps = NP(draw(st.lists(st.integers(0, 2), min_size=n, max_size=n)))
    kw = {} if ax is None and draw(st.booleans()) else {"axis": ax}
    return {"args": [P(a), reps], "kw": kw}


@recipe("tile", "shape")
def _tile(draw, og):
    a = og.array(draw, max_ndim=2)
    reps = draw(st.one_of(st.integers(0, 3), st.lists(st.integers(1, 2), min_size=1, max_size=3)))
    if isinstance(reps, list):
        reps = {"$tuple": reps}
    return {"args": [P(a), reps], "kw": {}}


@recipe("diag", "shape")
def _diag(draw, og):
    if draw(st.booleans()):
        a = og.array(draw, shape=(draw(st.integers(1, 3)),))
    else:
        a = og.array(draw, shape=(draw(st.integers(1, 3)), draw(st.integers(1, 3))))
    kw = {}
    if draw(st.booleans()):
        kw["k"] = draw(st.integers(-2, 2))
    return {"args": [P(a)], "kw": kw}


@recipe("diagonal", "shape", method="diagonal")
def _diagonal(draw, og):
    a = og.array(draw, min_ndim=2)
    nd = ndim_of(a)
    kw = {}
    if draw(st.booleans()):
        kw["offset"] = draw(st.integers(-2, 2))
    if nd >= 3 or draw(st.integers(0, 2)) == 0:
        a1, a2 = draw(st.lists(st.integers(0, nd - 1), min_size=2, max_size=2, unique=True))
        kw["axis1"], kw["axis2"] = a1, a2
    return {"args": [P(a)], "kw": kw}


@recipe("broadcast_arrays", "shape", result="list")
def _bcast(draw, og):
    target = draw(gen.shape_st(3))
    n = draw(st.integers(1, 3))
    ops = [og.array(draw, shape=gen.broadcast_member(draw, target))]
    for _ in range(n - 1):
        ops.append(og.related(draw, ops[0], gen.broadcast_member(draw, target)))
    return {"args": [P(d) for d in ops], "kw": {}}


# ---- joins

def _join_ops(draw, og, shapes):
    ops = [og.array(draw, shape=shapes[0])]
    for s in shapes[1:]:
        ops.append(og.related(draw, ops[0], s))
    return ops


@recipe("concatenate", "join")
def _concatenate(draw, og):
    base = list(draw(gen.shape_st(3, 1)))
    nd = len(base)
    ax = draw(st.integers(-nd, nd - 1))
    n = draw(st.integers(1, 4))
    shapes = []
    for _ in range(n):
        s = list(base)
        s[ax] = draw(st.integers(1, 3))
        shapes.append(tuple(s))
    kw = {"axis": ax} if ax != 0 or draw(st.booleans()) else {}
    return {"args": [{"$pl": _join_ops(draw, og, shapes)}], "kw": kw}


@recipe("stack", "join")
def _stack(draw, og):
    base = tuple(draw(gen.shape_st(2)))
    nd = len(base)
    ax = draw(st.integers(-nd - 1, nd))
    n = draw(st.integers(1, 4))
    kw = {"axis": ax} if ax != 0 or draw(st.booleans()) else {}
    return {"args": [{"$pl": _join_ops(draw, og, [base] * n)}], "kw": kw}


def _xstack(name, axis):
    @recipe(name, "join")
    def g(draw, og):
        base = list(draw(gen.shape_st(3, 0)))
        n = draw(st.integers(1, 3))
        shapes = []
        for _ in range(n):
            s = list(base)
            if len(s) > axis:
                s[axis] = draw(st.integers(1, 3))
            elif name == "hstack" and len(s) == 1:
                s[0] = draw(st.integers(1, 3))
            shapes.append(tuple(s))
        return {"args": [{"$pl": _join_ops(draw, og, shapes)}], "kw": {}}


_xstack("hstack", 1)
_xstack("vstack", 0)
_xstack("dstack", 2)


# ---- splits

def _split(name, axis_fixed=None, min_ndim=1, equal=True):
    @recipe(name, "split", result="list")
    def g(draw, og):
        a = og.array(draw, min_ndim=max(min_ndim, 1))
        nd = ndim_of(a)
        ax = axis_fixed if axis_fixed is not None else draw(st.integers(0, nd - 1))
        length = a["shape"][ax]
        if draw(st.booleans()):
            if equal:
                sec = draw(st.sampled_from([d for d in range(1, length + 1) if length % d == 0]))
            else:
                sec = draw(st.integers(1, length + 1))
        else:
            sec = sorted(draw(st.lists(st.integers(0, length), min_size=1, max_size=3)))
        kw = {}
        if axis_fixed is None and (ax != 0 or draw(st.booleans())):
            kw["axis"] = ax
        return {"args": [P(a), sec], "kw": kw}


_split("split")
_split("array_split", equal=False)
_split("hsplit", axis_fixed=1, min_ndim=2)
_split("vsplit", axis_fixed=0, min_ndim=2)
_split("dsplit", axis_fixed=2, min_ndim=3)


# ---- creation

@recipe("full", "creation")
def _full(draw, og):
    shape = list(draw(gen.shape_st(2)))
    fill = og.array(draw, shape=() if draw(st.booleans()) else gen.broadcast_member(draw, tuple(shape)))
    shape_arg = {"$tuple": shape}
    if len(shape) == 1 and draw(st.booleans()):
        # a one-dimensional shape may be given as a plain or numpy integer
        shape_arg = shape[0] if draw(st.booleans()) else {"$npint": shape[0]}
    return {"args": [shape_arg, P(fill)], "kw": {}}


def _like_kw(draw, og, a):
    """Sometimes another shape (tuple, int or numpy int), and - for numbers - another dtype."""
    kw = {}
    if draw(st.integers(0, 3)) == 0:
        shp = list(draw(gen.shape_st(2, 1)))
        kw["shape"] = {"$tuple": shp} if len(shp) > 1 or draw(st.booleans()) else (
            shp[0] if draw(st.booleans()) else {"$npint": shp[0]})
    if getattr(og, "mode", "") == "const" and draw(st.integers(0, 3)) == 0:
        kw["dtype"] = {"$dtype": draw(st.sampled_from(["float64", "complex128"] + (["int64"] if a.get("kind") == "i" else [])))}
    return kw


@recipe("full_like", "creation")
def _full_like(draw, og):
    a = og.array(draw, max_ndim=2)
    kw = _like_kw(draw, og, a)
    shape = tuple(a["shape"])
    if "shape" in kw:
        v = kw["shape"]
        shape = tuple(v["$tuple"]) if isinstance(v, dict) and "$tuple" in v else (
            (v["$npint"],) if isinstance(v, dict) else (v,))
    fill = og.related(draw, a, () if draw(st.booleans()) else gen.broadcast_member(draw, shape), kind=a["kind"])
    return {"args": [P(a), P(fill)], "kw": kw}


for _n in ("zeros", "ones"):
    @recipe(_n, "creation")
    def _zeros(draw, og):
        kw = {}
        if draw(st.booleans()):
            kw["dtype"] = {"$dtype": draw(st.sampled_from(["int64", "float64", "complex128"]))}
        return {"args": [{"$tuple": list(draw(gen.shape_st(3)))}], "kw": kw}

for _n in ("zeros_like", "ones_like"):
    @recipe(_n, "creation")
    def _zeros_like(draw, og):
        a = og.array(draw)
        return {"args": [P(a)], "kw": _like_kw(draw, og, a)}


# ---- selection

@recipe("where", "selection")
def _where(draw, og):
    if getattr(og, "mode", "") == "const" and draw(st.integers(0, 7)) == 0:
        # the one-argument form: the indices of the non-zero elements (plain index arrays, compared by C11)
        return {"args": [P(og.array(draw, min_ndim=1))], "kw": {}}
    target = draw(gen.shape_st(3))
    cshape = gen.broadcast_member(draw, target)
    size = gen.size_of(cshape)
    cond = NP(draw(st.lists(st.booleans(), min_size=size, max_size=size)), dtype="bool", shape=cshape)
    if draw(st.integers(0, 2)) == 0:
        # a polynomial as condition: an element is true unless it is the zero polynomial
        # (also when its coefficients happen to sum to zero, like q0-1)
        cpoly = og.array(draw, shape=cshape)
        if "terms" in cpoly and draw(st.booleans()):
            # elements c*(q - 1): non-zero polynomials whose coefficients cancel in a sum
            D = len(cpoly["names"])
            v = draw(st.lists(st.sampled_from([0, 1, 2, -3]), min_size=size, max_size=size))
            if cpoly.get("kind") == "c":
                v = [[x, 0] for x in v]
            neg = [[-x[0], 0] for x in v] if cpoly.get("kind") == "c" else [-x for x in v]
            cpoly["terms"] = [[[1] + [0] * (D - 1), v], [[0] * D, neg]]
        cond = P(cpoly)
    a = og.array(draw, shape=target if draw(st.booleans()) else gen.broadcast_member(draw, target))
    b = og.related(draw, a, gen.broadcast_member(draw, target))
    return {"args": [cond, P(a), P(b)], "kw": {}}


@recipe("choose", "selection")
def _choose(draw, og):
    n = draw(st.integers(1, 3))
    target = draw(gen.shape_st(2))
    # choices: n operands of one shape (stacked by the caller into a list)
    shapes = [tuple(target)] * n
    if draw(st.integers(0, 3)) == 0:
        # choices (and the index array) only have to broadcast against each other
        shapes = [tuple(target)] + [gen.broadcast_member(draw, tuple(target)) for _ in range(n - 1)]
    ops = _join_ops(draw, og, shapes)
    ishape = tuple(target)
    size = gen.size_of(ishape)
    mode = draw(st.sampled_from(["raise", "wrap", "clip"]))
    lo, hi = (0, n - 1) if mode == "raise" else (-2, n + 1)
    idx = NP(draw(st.lists(st.integers(lo, hi), min_size=size, max_size=size)), shape=ishape)
    kw = {} if mode == "raise" and draw(st.booleans()) else {"mode": mode}
    return {"args": [idx, {"$pl": ops}], "kw": kw}


# ---- typing

@recipe("result_type", "typing", result="dtype")
def _result_type(draw, og):
    n = draw(st.integers(1, 3))
    args = []
    for _ in range(n):
        if draw(st.integers(0, 3)) == 0:
            args.append({"$dtype": draw(st.sampled_from(["int32", "float32", "float64", "complex64", "uint8"]))})
        else:
            args.append(P(og.array(draw, max_ndim=1)))
    return {"args": args, "kw": {}}


@recipe("common_type", "typing", result="dtype")
def _common_type(draw, og):
    n = draw(st.integers(1, 3))
    return {"args": [P(og.array(draw, max_ndim=1)) for _ in range(n)], "kw": {}}


# ---- functional

@recipe("apply_along_axis", "functional", cost=3)
def _aaa(draw, og):
    a = og.array(draw, min_ndim=1)
    fn = draw(st.sampled_from(["sum", "reverse", "double", "cumsum"]))
    return {"args": [{"$fn": fn}, draw(st.integers(0, ndim_of(a) - 1)), P(a)], "kw": {}}


@recipe("apply_over_axes", "functional", cost=3)
def _aoa(draw, og):
    a = og.array(draw, min_ndim=1)
    nd = ndim_of(a)
    axes = draw(st.lists(st.integers(0, nd - 1), min_size=0 if draw(st.integers(0, 5)) == 0 else 1, max_size=nd,
                         unique=True))
    return {"args": [{"$fn": "sum"}, P(a), axes], "kw": {}}


# ---- text

@recipe("array_repr", "text", result="str", flags=("display",))
def _array_repr(draw, og):
    return {"args": [P(og.array(draw, max_ndim=2))], "kw": {}}


RECIPES["array_str"] = Recipe("array_str", "text", _array_repr, result="str", flags=("display",))

# copyto and savetxt have explicit outputs / side effects and are handled by the properties
# that need them (C08, C13); they are listed here so that coverage reports can name them.
SPECIAL = ["copyto", "savetxt"]


def registry_names():
    """Names registered in numpoly's dispatch tables (read at run time)."""
    import numpoly

    out = {}
    for table in (numpoly.FUNCTION_COLLECTION, numpoly.UFUNC_COLLECTION):
        for npfunc, impl in table.items():
            out.setdefault(impl.__name__, set()).add(npfunc)
    return out


def recipe_strategy(og, names=None, weights=None):
    """Strategy drawing {"fn", "args", "kw"} for one of the named recipes."""
    names = sorted(names or RECIPES)

    @st.composite
    def one(draw):
        name = draw(st.sampled_from(names))
        call = RECIPES[name].gen(draw, og)
        call["fn"] = name
        return call

    return one()


def call_live(call, module=None, spelling="numpoly"):
    """Execute a call description; returns the result (raises what the callee raises)."""
    import numpoly

    rec = RECIPES[call["fn"]]
    args = resolve(call["args"], "live")
    kw = resolve(call["kw"], "live")
    return invoke(rec, args, kw, spelling)


def invoke(rec, args, kw, spelling):
    import operator as op

    import numpoly

    if spelling == "numpoly":
        return getattr(numpoly, rec.name)(*args, **kw)
    if spelling == "numpy":
        if rec.name == "det":
            return numpy.linalg.det(*args, **kw)
        return getattr(numpy, rec.np_name)(*args, **kw)
    if spelling == "method":
        return getattr(args[0], rec.method)(*args[1:], **kw)
    if spelling == "operator":
        o = rec.operator
        if o in ("neg", "pos", "abs"):
            return {"neg": op.neg, "pos": op.pos, "abs": abs}[o](args[0])
        return getattr(op, o)(args[0], args[1])
    if spelling == "reduce":
        return getattr(numpy, rec.reduce).reduce(args[0], **kw)
    if spelling == "accumulate":
        return getattr(numpy, rec.accumulate).accumulate(args[0], **kw)
    if spelling == "like":  # numpy.full/zeros/ones reach the override protocol through like= only
        return getattr(numpy, rec.np_name)(*args, like=numpoly.polynomial(0), **kw)
    if spelling == "reduce-default":  # axis omitted: the ufunc methods default to axis=0
        return getattr(numpy, rec.reduce).reduce(args[0], **{k: v for k, v in kw.items() if k != "axis"})
    if spelling == "accumulate-default":
        return getattr(numpy, rec.accumulate).accumulate(args[0], **{k: v for k, v in kw.items() if k != "axis"})
    raise ValueError(spelling)


def spellings_of(rec, args, kw):
    """Spellings applicable to this call."""
    import numpoly

    out = ["numpoly"]
    if rec.np_name or rec.name == "det":
        out.append("numpy")
    first_poly = bool(args) and isinstance(args[0], numpoly.ndpoly)
    if rec.method and first_poly:
        out.append("method")
    if rec.operator and not kw and (first_poly or (len(args) > 1 and isinstance(args[1], numpoly.ndpoly))):
        out.append("operator")
    # ufunc.reduce/accumulate default to axis=0 while sum/cumsum default to axis=None by
    # definition, so these spellings need the axis spelled out (an int, a tuple or an explicit None for
    # reduce; an int for accumulate), and the axis-omitted ufunc spelling corresponds to axis=0
    if rec.reduce and first_poly and set(kw) <= {"axis", "keepdims", "dtype", "initial", "where"} and "axis" in kw:
        out.append("reduce")
        if isinstance(kw["axis"], int) and not isinstance(kw["axis"], bool) and kw["axis"] == 0:
            out.append("reduce-default")
    if rec.accumulate and first_poly and set(kw) <= {"axis"} and isinstance(kw.get("axis"), int):
        out.append("accumulate")
        if kw["axis"] == 0:
            out.append("accumulate-default")
    return out


# --------------------------------------------------------------------- numpoly-only callables
# (no numpy counterpart): used by C03 (results well-formed), C15 (options), C17 (no mutation)

EXTRA = {}


def extra(name, cost=1, flags=()):
    def deco(fn):
        EXTRA[name] = (fn, cost, set(flags))
        return fn
    return deco


@extra("call-partial")
def _x_call(draw, og):
    a = og.array(draw, max_ndim=2)
    vals = {n: draw(st.integers(-2, 3)) for n in a["names"] if draw(st.booleans())}
    return {"args": [P(a)], "kw": {"values": vals}}


@extra("derivative")
def _x_derivative(draw, og):
    a = og.array(draw, max_ndim=2)
    n = draw(st.integers(1, 2))
    dv = [draw(st.sampled_from(list(a["names"]) + list(range(len(a["names"]))))) for _ in range(n)]
    if draw(st.integers(0, 4)) == 0:
        dv.append("q77")  # unknown variable: the call raises after the first steps
    return {"args": [P(a)], "kw": {"vars": dv}}


@extra("cancel-then-call")
def _x_cancel_call(draw, og):
    """two-step program: (p - p) evaluated / partially evaluated"""
    a = og.array(draw, max_ndim=2)
    vals = {n: draw(st.integers(-2, 3)) for n in a["names"] if draw(st.integers(0, 3)) > 0}
    return {"args": [P(a)], "kw": {"values": vals}}


@extra("cancel-then-reduce")
def _x_cancel_reduce(draw, og):
    a = og.array(draw, min_ndim=1, max_ndim=2)
    return {"args": [P(a)], "kw": {"how": draw(st.sampled_from(["sum", "derivative", "index", "mul", "diffvar"]))}}


@extra("construct-monomial")
def _x_monomial(draw, og):
    dims = draw(st.integers(1, 3))
    stop = draw(st.integers(1, 4))
    start = draw(st.integers(0, stop))
    return {"args": [], "kw": {"start": start, "stop": stop, "dimensions": dims,
                               "graded": draw(st.booleans()), "reverse": draw(st.booleans()),
                               "cross_truncation": draw(st.sampled_from([1.0, 1.0, 2.0, 0.5]))}}


@extra("construct-variable")
def _x_variable(draw, og):
    return {"args": [], "kw": {"dimensions": draw(st.integers(1, 4)),
                               "dtype": draw(st.sampled_from(["int64", "float64", "complex128"]))}}


@extra("construct-symbols")
def _x_symbols(draw, og):
    return {"args": [], "kw": {"names": draw(st.sampled_from(["q0", "q3", "q0:3", "q1,q10", "q2 q5 q7", "q:2"]))}}


@extra("construct-dict")
def _x_dict(draw, og):
    a = og.array(draw, max_ndim=2)
    return {"args": [P(a)], "kw": {}}


@extra("construct-unnamed")
def _x_unnamed(draw, og):
    """construction from exponents without names: the columns are q0, q1, ... by position"""
    D = draw(st.integers(1, 3))
    n = draw(st.integers(1, 3))
    rows = draw(st.lists(st.lists(st.integers(0, 2), min_size=D, max_size=D), min_size=n, max_size=n, unique_by=tuple))
    unused = draw(st.sampled_from([None, None, 0, D - 1]))
    if unused is not None and D > 1:
        rows = [[0 if i == unused else v for i, v in enumerate(r)] for r in rows]
        rows = [list(t) for t in dict.fromkeys(tuple(r) for r in rows)]
    coefs = [draw(st.integers(1, 5)) for _ in rows]
    return {"args": [], "kw": {"rows": rows, "coefs": coefs,
                               "how": draw(st.sampled_from(["dict", "attributes", "from_attributes", "clean"]))}}


@extra("construct-from-arrays")
def _x_from_arrays(draw, og):
    """constructors given numpy arrays (exponents already in the storage type, coefficient arrays): inputs, not scratch space"""
    D = draw(st.integers(1, 3))
    n = draw(st.integers(1, 3))
    rows = draw(st.lists(st.lists(st.integers(0, 3), min_size=D, max_size=D), min_size=n, max_size=n, unique_by=tuple))
    edt = draw(st.sampled_from(["uint32", "uint32", "int64", "uint8"]))
    coefs = [NP(draw(st.lists(st.integers(-3, 3), min_size=2, max_size=2)), "int64") for _ in rows]
    return {"args": [NP(rows, edt), coefs],
            "kw": {"how": draw(st.sampled_from(["ndpoly", "polynomial_from_attributes", "from_attributes"])),
                   "retain": draw(st.booleans())}}


@extra("construct-allocation")
def _x_allocation(draw, og):
    """an explicit allocation= (any value >= the number of terms), alone or followed by a split that forwards it"""
    a = og.array(draw, min_ndim=1, max_ndim=2)
    return {"args": [P(a)], "kw": {"extra_slots": draw(st.sampled_from(["n+1", "n+1", "2n-1", "n", "2n", "3n", "n+2"])),
                                   "how": draw(st.sampled_from(["polynomial", "from_attributes", "aspolynomial"])),
                                   "then": draw(st.sampled_from([None, None, "hsplit", "vsplit", "add"]))}}


@extra("cancel-then-unary")
def _x_cancel_unary(draw, og):
    """(p - p + c) - it keeps all-zero terms when they are retained - through an element-wise or reducing function"""
    a = og.array(draw, min_ndim=1, max_ndim=2)
    return {"args": [P(a)], "kw": {"fn": draw(st.sampled_from(["isfinite", "absolute", "negative", "floor", "square", "sum",
                                                             "any", "all", "count_nonzero", "around", "mean", "cumsum"])),
                                   "const": draw(st.sampled_from([1, 2, 0, -3]))}}


@extra("construct-nested-list")
def _x_nested(draw, og):
    a = og.array(draw, min_ndim=1, max_ndim=2)
    return {"args": [P(a)], "kw": {"depth": draw(st.integers(1, 2))}}


@extra("construct-roots")
def _x_roots(draw, og):
    n = draw(st.integers(1, 4))
    return {"args": [], "kw": {"roots": draw(st.lists(st.integers(-3, 3), min_size=n, max_size=n))}}


@extra("aspolynomial-args")
def _x_aspoly(draw, og):
    """aspolynomial / polynomial with explicit names= / dtype= (the no-copy shortcuts live here)"""
    a = og.array(draw, max_ndim=2, names=draw(st.sampled_from([None, None, ["q0", "q1", "q3"], ["q1", "q2"], ["q2", "q10"]])))
    return {"args": [P(a)], "kw": {"how": draw(st.sampled_from(["names-prefix", "names-prefix", "names-prefix",
                                                             "names-same", "names-poly", "dtype-same",
                                                             "dtype-other", "polynomial-names"]))}}


@extra("copyto")
def _x_copyto(draw, og):
    """explicit output: the DESTINATION (first operand) may change, the source must not"""
    src = og.array(draw, min_ndim=1, max_ndim=2)
    # destination with the same layout (names, term rows, shape, kind) but other coefficients
    size = gen.size_of(tuple(src["shape"]))
    dst = dict(src)
    dst["terms"] = [[list(t[0]), draw(st.lists(gen.coef_st(src["kind"]), min_size=size, max_size=size))]
                    for t in src["terms"]]
    dst["retain"] = True
    src = dict(src, retain=True)
    kw = {}
    if draw(st.booleans()):
        kw["where"] = NP(draw(st.lists(st.booleans(), min_size=size, max_size=size)), dtype="bool",
                         shape=tuple(src["shape"]))
    return {"args": [P(dst), P(src)], "kw": kw}


@extra("gradient")
def _x_gradient(draw, og):
    return {"args": [P(og.array(draw, max_ndim=2))], "kw": {}}


@extra("hessian", cost=2)
def _x_hessian(draw, og):
    return {"args": [P(og.array(draw, max_ndim=1))], "kw": {}}


for _n in ("decompose", "isconstant", "tonumpy", "lead_exponent", "lead_coefficient", "sortable_proxy",
           "clean_attributes", "polynomial", "aspolynomial", "indeterminants", "todict", "copy", "pickle",
           "ravel", "flatten", "T", "iter", "str", "repr", "coefficients", "exponents", "to_sympy"):
    @extra(_n, flags=("display",) if _n in ("str", "repr") else ())
    def _x_unary(draw, og):
        return {"args": [P(og.array(draw, max_ndim=2))], "kw": {}}


@extra("set_dimensions")
def _x_setdim(draw, og):
    return {"args": [P(og.array(draw, max_ndim=2))], "kw": {"dimensions": draw(st.integers(1, 5))}}


@extra("astype")
def _x_astype(draw, og):
    return {"args": [P(og.array(draw, max_ndim=2))],
            "kw": {"dtype": draw(st.sampled_from(["float64", "complex128", "int64"]))}}


for _n in ("align_polynomials", "align_shape", "align_indeterminants", "align_exponents"):
    @extra(_n)
    def _x_align(draw, og):
        a, b = _pair(draw, og)
        return {"args": [P(a), P(b)], "kw": {}}


for _n in ("poly_divide", "poly_remainder", "poly_divmod", "op-truediv", "op-mod", "op-divmod"):
    @extra(_n, cost=8, flags=("division",))
    def _x_div(draw, og):
        names = ["q0", "q1"][: draw(st.integers(1, 2))]
        target = draw(st.sampled_from([(), (2,), (2, 2)]))
        a = draw(gen.poly_desc(names=names, shape=target, kinds="if", max_terms=3, max_exp=2, retain=False))
        b = draw(gen.poly_desc(names=names, shape=gen.broadcast_member(draw, target), kind=a["kind"],
                               min_terms=1, max_terms=2, max_exp=1, retain=False))
        return {"args": [P(a), P(b)], "kw": {}}


@extra("getitem")
def _x_getitem(draw, og):
    a = og.array(draw, min_ndim=1)
    idx = draw(st.sampled_from([0, -1, {"slice": [None, None, -1]}, {"slice": [0, 1, None]}, "ellipsis"]))
    return {"args": [P(a)], "kw": {"index": idx}}


def invoke_extra(name, args, kw):
    import copy as _copy
    import pickle

    import numpoly

    p = args[0] if args else None
    if name == "call-partial":
        return p(**kw["values"])
    if name == "derivative":
        return numpoly.derivative(p, *kw["vars"])
    if name == "aspolynomial-args":
        how = kw["how"]
        if how == "names-prefix":
            return numpoly.aspolynomial(p, names="q")
        if how == "names-same":
            return numpoly.aspolynomial(p, names=p.names)
        if how == "names-poly":
            return numpoly.aspolynomial(p, names=p)
        if how == "dtype-same":
            return numpoly.aspolynomial(p, dtype=p.dtype)
        if how == "dtype-other":
            return numpoly.aspolynomial(p, dtype="complex128")
        return numpoly.polynomial(p, names=p.names)
    if name == "copyto":
        return numpoly.copyto(args[0], args[1], **kw)
    if name == "construct-monomial":
        return numpoly.monomial(**kw)
    if name == "construct-variable":
        return numpoly.variable(kw["dimensions"], dtype=kw["dtype"])
    if name == "construct-symbols":
        return numpoly.symbols(kw["names"])
    if name == "construct-dict":
        return numpoly.polynomial(p.todict(), names=p.names)
    if name == "construct-unnamed":
        rows, coefs, how = kw["rows"], kw["coefs"], kw["how"]
        if how == "dict":
            return numpoly.polynomial({tuple(r): c for r, c in zip(rows, coefs)})
        if how == "attributes":
            return numpoly.polynomial_from_attributes(exponents=rows, coefficients=coefs)
        if how == "from_attributes":
            return numpoly.ndpoly.from_attributes(exponents=rows, coefficients=coefs)
        return numpoly.clean_attributes(numpoly.ndpoly.from_attributes(exponents=rows, coefficients=coefs))
    if name == "construct-from-arrays":
        E, C = args
        if kw["how"] == "ndpoly":
            out = numpoly.ndpoly(exponents=E, shape=(2,))  # (allocates only: the coefficients are the caller's to fill)
            for key in out.keys:
                out.values[key] = 0
            return out
        ctor = numpoly.polynomial_from_attributes if kw["how"] == "polynomial_from_attributes" else numpoly.ndpoly.from_attributes
        return ctor(E, C, retain_coefficients=kw["retain"], retain_names=kw["retain"])
    if name == "construct-allocation":
        n = len(p.keys)
        alloc = {"n+1": n + 1, "2n-1": max(n, 2 * n - 1), "n": n, "2n": 2 * n, "3n": 3 * n, "n+2": n + 2}[kw["extra_slots"]]
        if kw["how"] == "polynomial":
            out = numpoly.polynomial(p, allocation=alloc)
        elif kw["how"] == "aspolynomial":
            out = numpoly.polynomial(p.todict(), names=p.names, allocation=alloc)
        else:
            out = numpoly.polynomial_from_attributes(p.exponents, p.coefficients, p.names, allocation=alloc)
        if kw["then"] == "hsplit":
            return numpoly.hsplit(out, [1])
        if kw["then"] == "vsplit" and out.ndim >= 2:
            return numpoly.vsplit(out, [1])
        if kw["then"] == "add":
            return out + out
        return out
    if name == "cancel-then-unary":
        z = p - p + kw["const"]
        return getattr(numpoly, kw["fn"])(z)
    if name == "construct-nested-list":
        items = [x for x in p] if kw["depth"] == 1 or p.ndim < 2 else [[y for y in x] for x in p]
        return numpoly.polynomial(items)
    if name == "construct-roots":
        return numpoly.polynomial_from_roots(kw["roots"])
    if name == "cancel-then-call":
        return (p - p)(**kw["values"])
    if name == "cancel-then-reduce":
        z = p - p
        how = kw["how"]
        if how == "sum":
            return numpoly.sum(z, axis=0)
        if how == "derivative":
            return numpoly.derivative(z, 0)
        if how == "index":
            return z[0]
        if how == "diffvar":
            # differentiate with respect to a variable that itself carries a cancelled (all-zero when retained) term
            v = numpoly.symbols(p.names[0])
            w = numpoly.symbols(p.names[-1] if len(p.names) > 1 else "q9")
            return numpoly.derivative(p, (v + w) - w)
        return z * p
    if name in ("gradient", "hessian", "decompose", "isconstant", "tonumpy", "lead_exponent", "lead_coefficient",
                "sortable_proxy", "clean_attributes", "polynomial", "aspolynomial", "to_sympy"):
        return getattr(numpoly, name)(p)
    if name in ("indeterminants", "coefficients", "exponents", "T"):
        return getattr(p, name)
    if name == "todict":
        return p.todict()
    if name == "copy":
        return (p.copy(), _copy.copy(p), _copy.deepcopy(p))
    if name == "pickle":
        return pickle.loads(pickle.dumps(p))
    if name in ("ravel", "flatten"):
        return getattr(p, name)()
    if name == "iter":
        return list(p)
    if name == "str":
        return str(p)
    if name == "repr":
        return repr(p)
    if name == "set_dimensions":
        return numpoly.set_dimensions(p, kw["dimensions"])
    if name == "astype":
        return p.astype(kw["dtype"])
    if name.startswith("align_"):
        return getattr(numpoly, name)(*args)
    if name in ("poly_divide", "poly_remainder", "poly_divmod"):
        return getattr(numpoly, name)(*args)
    if name == "op-truediv":
        return args[0] / args[1]
    if name == "op-mod":
        return args[0] % args[1]
    if name == "op-divmod":
        return divmod(args[0], args[1])
    if name == "getitem":
        idx = kw["index"]
        if isinstance(idx, dict):
            idx = slice(*idx["slice"])
        elif idx == "ellipsis":
            idx = Ellipsis
        return p[idx]
    raise ValueError(name)


def any_call_strategy(og, names=None, extra_names=None, skip=()):
    """Draw a call from RECIPES or EXTRA: {"fn", "args", "kw", "extra": bool}."""
    rnames = sorted(n for n in (names if names is not None else RECIPES) if n not in skip)
    xnames = sorted(n for n in (extra_names if extra_names is not None else EXTRA) if n not in skip)

    @st.composite
    def one(draw):
        pool = [("r", n) for n in rnames] + [("x", n) for n in xnames]
        kind, name = draw(st.sampled_from(pool))
        if kind == "r":
            call = RECIPES[name].gen(draw, og)
            call["extra"] = False
        else:
            call = EXTRA[name][0](draw, og)
            call["extra"] = True
        call["fn"] = name
        return call

    return one()


def run_call(call, args=None, kw=None, spelling="numpoly"):
    if args is None:
        args = resolve(call["args"], "live")
    if kw is None:
        kw = resolve(call["kw"], "live")
    if call.get("extra"):
        return invoke_extra(call["fn"], args, kw)
    return invoke(RECIPES[call["fn"]], args, kw, spelling)
