"""Exact sparse-polynomial reference model.  Does not import numpoly.

A monomial is a sorted tuple of (variable_index, exponent>0) pairs.
An element polynomial MP is a dict monomial -> non-zero coefficient, with
coefficients int, Fraction or GQ (exact Gaussian rational).
A polynomial array is a numpy object array of MP.
"""
import itertools
from fractions import Fraction

import numpy


class GQ:
    """Exact complex number with Fraction parts."""

    __slots__ = ("re", "im")

    def __init__(self, re, im=0):
        self.re = Fraction(re)
        self.im = Fraction(im)

    @staticmethod
    def lift(x):
        if isinstance(x, GQ):
            return x
        if isinstance(x, complex):
            return GQ(Fraction(x.real), Fraction(x.imag))
        return GQ(x, 0)

    def __add__(self, o):
        o = GQ.lift(o)
        return simplify(GQ(self.re + o.re, self.im + o.im))

    __radd__ = __add__

    def __neg__(self):
        return GQ(-self.re, -self.im)

    def __sub__(self, o):
        return self + (-GQ.lift(o))

    def __rsub__(self, o):
        return GQ.lift(o) + (-self)

    def __mul__(self, o):
        o = GQ.lift(o)
        return simplify(
            GQ(self.re * o.re - self.im * o.im, self.re * o.im + self.im * o.re)
        )

    __rmul__ = __mul__

    def __truediv__(self, o):
        o = GQ.lift(o)
        den = o.re * o.re + o.im * o.im
        num = self * GQ(o.re, -o.im)
        num = GQ.lift(num)
        return simplify(GQ(num.re / den, num.im / den))

    def __rtruediv__(self, o):
        return GQ.lift(o) / self

    def __pow__(self, n):
        out = GQ(1, 0)
        for _ in range(int(n)):
            out = GQ.lift(out * self)
        return simplify(out)

    def __eq__(self, o):
        try:
            o = GQ.lift(o)
        except (TypeError, ValueError):
            return NotImplemented
        return self.re == o.re and self.im == o.im

    def __ne__(self, o):
        r = self.__eq__(o)
        return r if r is NotImplemented else not r

    def __hash__(self):
        if self.im == 0:
            return hash(self.re)
        return hash((self.re, self.im))

    def __abs__(self):
        return float((self.re * self.re + self.im * self.im)) ** 0.5

    def __complex__(self):
        return complex(float(self.re), float(self.im))

    def __repr__(self):
        return "GQ(%s,%s)" % (self.re, self.im)


def simplify(x):
    """GQ with zero imaginary part -> Fraction; integral Fraction -> int."""
    if isinstance(x, GQ):
        if x.im == 0:
            x = x.re
        else:
            return x
    if isinstance(x, Fraction) and x.denominator == 1:
        return int(x)
    return x


def cval(x):
    """Exact coefficient from a Python/numpy number."""
    if isinstance(x, (GQ, Fraction)):
        return simplify(x)
    if isinstance(x, numpy.generic):
        x = x.item()
    if isinstance(x, bool):
        return int(x)
    if isinstance(x, int):
        return x
    if isinstance(x, float):
        if x != x or x in (float("inf"), float("-inf")):
            raise ValueError("non-finite coefficient %r" % (x,))
        return simplify(Fraction(x))
    if isinstance(x, complex):
        return simplify(GQ(Fraction(x.real), Fraction(x.imag)))
    raise TypeError("not a coefficient: %r" % (type(x),))


def mono_mul(k1, k2):
    if not k1:
        return k2
    if not k2:
        return k1
    m = dict(k1)
    for n, e in k2:
        m[n] = m.get(n, 0) + e
    return tuple(sorted(m.items()))


class MP:
    """Element polynomial: dict monomial -> non-zero exact coefficient."""

    __slots__ = ("d",)

    def __init__(self, d=None):
        self.d = {}
        if d:
            for k, v in d.items():
                v = simplify(v)
                if v != 0:
                    self.d[k] = v

    @staticmethod
    def lift(o):
        if isinstance(o, MP):
            return o
        return MP({(): cval(o)})

    @staticmethod
    def const(c):
        return MP({(): cval(c)})

    @staticmethod
    def var(n, e=1):
        return MP({((n, e),): 1}) if e else MP({(): 1})

    def __add__(self, o):
        o = MP.lift(o)
        d = dict(self.d)
        for k, v in o.d.items():
            d[k] = d.get(k, 0) + v
        return MP(d)

    __radd__ = __add__

    def __neg__(self):
        return MP({k: -v for k, v in self.d.items()})

    def __pos__(self):
        return self

    def __sub__(self, o):
        return self + (-MP.lift(o))

    def __rsub__(self, o):
        return MP.lift(o) - self

    def scale(self, f):
        return MP({k: v * f for k, v in self.d.items()})

    def __mul__(self, o):
        o = MP.lift(o)
        d = {}
        for (k1, v1), (k2, v2) in itertools.product(self.d.items(), o.d.items()):
            k = mono_mul(k1, k2)
            d[k] = d.get(k, 0) + v1 * v2
        return MP(d)

    __rmul__ = __mul__

    def __truediv__(self, o):
        """Division by an exact non-zero number (used by numpy.mean on object arrays)."""
        c = cval(o)
        if isinstance(c, int):
            c = Fraction(c)
        return MP({k: simplify(v / c) if not isinstance(v, int) else simplify(Fraction(v) / c if not isinstance(c, GQ) else GQ.lift(v) / c)
                   for k, v in self.d.items()})

    def __pow__(self, n):
        n = int(n)
        if n < 0:
            raise ValueError("negative power")
        out = MP({(): 1})
        for _ in range(n):
            out = out * self
        return out

    def __eq__(self, o):
        try:
            o = MP.lift(o)
        except (TypeError, ValueError):
            return NotImplemented
        return self.d == o.d

    def __ne__(self, o):
        r = self.__eq__(o)
        return r if r is NotImplemented else not r

    def __hash__(self):
        return hash(frozenset(self.d.items()))

    def __bool__(self):
        return bool(self.d)

    def __repr__(self):
        return "MP(%r)" % (self.d,)

    def isconstant(self):
        return all(k == () for k in self.d)

    def constant(self):
        return self.d.get((), 0)

    def variables(self):
        return sorted({n for k in self.d for n, _ in k})

    def degree(self, n=None):
        if not self.d:
            return -1
        if n is None:
            return max(sum(e for _, e in k) for k in self.d)
        return max(dict(k).get(n, 0) for k in self.d)

    def diff(self, n):
        d = {}
        for k, v in self.d.items():
            m = dict(k)
            if n in m:
                e = m[n]
                if e == 1:
                    del m[n]
                else:
                    m[n] = e - 1
                kk = tuple(sorted(m.items()))
                d[kk] = d.get(kk, 0) + v * e
        return MP(d)

    def subs(self, env):
        """env: variable index -> MP or number; missing variables stay."""
        tot = MP()
        for k, v in self.d.items():
            t = MP({(): v})
            for n, e in k:
                if n in env:
                    t = t * (MP.lift(env[n]) ** e)
                else:
                    t = t * MP.var(n, e)
            tot = tot + t
        return tot

    def ev(self, env):
        """Full numeric evaluation; env: variable index -> exact number."""
        tot = 0
        for k, v in self.d.items():
            t = v
            for n, e in k:
                t = t * env[n] ** e
            tot = tot + t
        return simplify(tot)

    def absval(self):
        """Same polynomial with every coefficient replaced by its magnitude."""
        return MP({k: (abs(v) if not isinstance(v, GQ) else Fraction(abs(v)))
                   for k, v in self.d.items()})

    def maxabs(self):
        return max([float(abs(v)) for v in self.d.values()] or [0.0])

    def nterms(self):
        return len(self.d)


# ---------------------------------------------------------------- orders

def expvec(k, nvars):
    """Dense exponent tuple of monomial k over variable indices nvars."""
    m = dict(k)
    return tuple(m.get(n, 0) for n in nvars)


def order_key(vec, graded=True, reverse=False):
    """Sort key reproducing the documented monomial orders.

    numpoly.glexsort: lexsort treats the LAST row as primary key, i.e. the
    last indeterminate is most significant; reverse=True makes the first
    indeterminate most significant; graded puts the total degree first.
    """
    vec = tuple(vec)
    core = vec if reverse else vec[::-1]
    return ((sum(vec),) + core) if graded else core


def leading(mp, nvars, graded=True, reverse=False):
    """(exponent vector, coefficient) of the largest term, or (zeros, 0)."""
    if not mp.d:
        return (0,) * len(nvars), 0
    best = max(mp.d, key=lambda k: order_key(expvec(k, nvars), graded, reverse))
    return expvec(best, nvars), mp.d[best]


def compare(a, b, nvars, graded=True, reverse=False):
    """-1/0/1: compare coefficients at the largest monomial where a,b differ."""
    keys = [k for k in set(a.d) | set(b.d) if a.d.get(k, 0) != b.d.get(k, 0)]
    if not keys:
        return 0
    k = max(keys, key=lambda k: order_key(expvec(k, nvars), graded, reverse))
    ca, cb = a.d.get(k, 0), b.d.get(k, 0)
    return -1 if ca < cb else 1


# ---------------------------------------------------------------- arrays

def obj_array(shape, fill=None):
    out = numpy.empty(shape, dtype=object)
    for idx in numpy.ndindex(*out.shape):
        out[idx] = MP() if fill is None else fill
    return out


def const_array(a):
    """numeric array-like -> object array of constant MP."""
    a = numpy.asarray(a)
    out = numpy.empty(a.shape, dtype=object)
    for idx in numpy.ndindex(*a.shape):
        out[idx] = MP.const(a[idx])
    return out


def arr_map(f, *arrs):
    arrs = numpy.broadcast_arrays(*[numpy.asarray(a, dtype=object) for a in arrs])
    out = numpy.empty(arrs[0].shape, dtype=object)
    for idx in numpy.ndindex(*out.shape):
        out[idx] = f(*[a[idx] for a in arrs])
    return out


def arr_equal(a, b):
    a = numpy.asarray(a, dtype=object)
    b = numpy.asarray(b, dtype=object)
    if a.shape != b.shape:
        return False
    return all(MP.lift(a[idx]) == MP.lift(b[idx]) for idx in numpy.ndindex(*a.shape))


def mp_close(a, b, tol=1e-9, scale=None):
    """Coefficient-wise closeness of two MP (float results)."""
    a = MP.lift(a)
    b = MP.lift(b)
    s = max(1.0, a.maxabs(), b.maxabs()) if scale is None else max(1.0, float(scale))
    for k in set(a.d) | set(b.d):
        va, vb = a.d.get(k, 0), b.d.get(k, 0)
        diff = va - vb
        if abs(diff) > tol * s:
            return False
    return True


def arr_close(a, b, tol=1e-9, scale=None):
    a = numpy.asarray(a, dtype=object)
    b = numpy.asarray(b, dtype=object)
    if a.shape != b.shape:
        return False
    return all(mp_close(a[idx], b[idx], tol, scale) for idx in numpy.ndindex(*a.shape))


def first_diff(a, b):
    """Human-readable first differing element of two model arrays."""
    a = numpy.asarray(a, dtype=object)
    b = numpy.asarray(b, dtype=object)
    if a.shape != b.shape:
        return "shape %s != %s" % (a.shape, b.shape)
    for idx in numpy.ndindex(*a.shape):
        if not (MP.lift(a[idx]) == MP.lift(b[idx])):
            return "at %s: got %r expected %r" % (idx, a[idx], b[idx])
    return None
