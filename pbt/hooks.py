"""Harness-side hooks: division-loop monitor, poison allocator, option reset.

Both hooks wrap module attributes at run time (no source change in /repo).
"""
import hashlib
import sys

import numpy

ITER_CAP = 400
WORK_CAP = int(__import__('os').environ.get('VERIF_DIV_WORK_CAP', '60000'))  # stored coefficients visited by one division


class DivisionLoop(BaseException):
    def __init__(self, kind, trace):
        super().__init__("poly_divmod does not terminate (%s) after %d candidate "
                         "searches; trace=%s" % (kind, len(trace), trace[-6:]))
        self.kind = kind
        self.trace = trace


class _Monitor:
    def __init__(self):
        self.depth = 0
        self.seen = None
        self.trace = None
        self.progress = {}
        self.work = 0
        self.max_work = 0
        self.last_iterations = 0
        self.last_steps = 0
        self.installed = False
        self.available = True

    def reset(self):
        self.depth = 0
        self.seen = None
        self.trace = None
        self.progress = {}
        self.work = 0


MON = _Monitor()
POISON = {"on": False, "count": 0}
_DEFAULTS = {}


def _digest(x1, x2):
    h = hashlib.sha1()
    for p in (x1, x2):
        h.update(repr(tuple(p.names)).encode())
        h.update(numpy.asarray(p.exponents).tobytes())
        h.update(str(p.dtype).encode())
        h.update(repr(tuple(p.shape)).encode())
        for c in p.coefficients:
            h.update(numpy.ascontiguousarray(c).tobytes())
    return h.hexdigest()[:16]


def install():
    """Wrap get_division_candidate / poly_divmod and ndpoly.__new__."""
    if MON.installed:
        return
    import numpoly

    _DEFAULTS.update(numpoly.get_options(defaults=True))
    MON.installed = True
    try:
        mod = sys.modules["numpoly.poly_function.divide.divmod"]
        orig_cand = mod.get_division_candidate
        orig_divmod = mod.poly_divmod
    except (KeyError, AttributeError):
        # the division loop was refactored away from where the monitor hooks in: run without it
        # (a non-terminating division then ends in the per-case watchdog = inconclusive, never in a
        # false alarm); the poison allocator below does not depend on it
        MON.available = False
        _install_poison(numpoly)
        return

    def cand(x1, x2, *a, **k):
        if MON.seen is not None:
            d = _digest(x1, x2)
            MON.trace.append(d)
            if d in MON.seen:
                tr = MON.trace
                MON.reset()
                raise DivisionLoop("repeated-state", tr)
            MON.seen.add(d)
            MON.work += len(x1.keys) * max(1, int(numpy.prod(x1.shape, dtype=int)))
            MON.max_work = max(MON.max_work, MON.work)
            if len(MON.trace) > ITER_CAP or MON.work > WORK_CAP:
                tr = MON.trace
                MON.reset()
                raise DivisionLoop("cap-without-repeat", tr)
        res = orig_cand(x1, x2, *a, **k)
        if MON.seen is not None and res is not None:
            # progress measure, independent of which monomial order the algorithm uses: under any
            # monomial order the cancelled leading monomials of one element strictly decrease, so an
            # element never cancels the same monomial twice; a repeat breaks the descent argument
            # that makes the loop finite
            try:
                idx1, _, include, _ = res
                key = (tuple(x1.names), tuple(int(v) for v in numpy.asarray(x1.exponents)[idx1]))
                inc = numpy.asarray(include).ravel()
                for e in numpy.flatnonzero(inc):
                    done = MON.progress.setdefault(int(e), set())
                    if key in done:
                        tr = MON.trace
                        MON.reset()
                        raise DivisionLoop("no-progress", tr)
                    done.add(key)
            except DivisionLoop:
                raise
            except Exception:
                pass
        return res

    def divmod_(dividend, divisor, *a, **k):
        # the 0-d case recurses once on the ravelled operands: monitor the
        # innermost call that owns the loop (shape != ()).
        top = MON.depth == 0
        MON.depth += 1
        saved = (MON.seen, MON.trace, MON.progress, MON.work)
        MON.seen, MON.trace, MON.progress, MON.work = set(), [], {}, 0
        try:
            out = orig_divmod(dividend, divisor, *a, **k)
            n = len(MON.trace)
            if n:
                MON.last_iterations = n
            return out
        finally:
            MON.depth -= 1
            MON.seen, MON.trace, MON.progress, MON.work = saved
            if top:
                MON.depth = 0

    cand.__wrapped__ = orig_cand
    divmod_.__wrapped__ = orig_divmod
    divmod_.__doc__ = orig_divmod.__doc__
    mod.get_division_candidate = cand
    # poly_divmod is referenced by name from several places
    mod.poly_divmod = divmod_
    for name, m in list(sys.modules.items()):
        if name.startswith("numpoly") and m is not None:
            if getattr(m, "poly_divmod", None) is orig_divmod:
                try:
                    setattr(m, "poly_divmod", divmod_)
                except Exception:
                    pass

    _install_poison(numpoly)


def _install_poison(numpoly):
    # poison allocator
    orig_new = numpoly.ndpoly.__new__

    def new(cls, *a, **k):
        obj = orig_new(cls, *a, **k)
        if POISON["on"]:
            try:
                raw = numpy.ndarray.view(obj, numpy.ndarray)
                if raw.size and raw.flags.writeable:
                    numpy.frombuffer(raw.data, dtype=numpy.uint8)[...] = 0xA5
                    POISON["count"] += 1
            except Exception:
                pass
        return obj

    new.__wrapped__ = orig_new
    numpoly.ndpoly.__new__ = staticmethod(new)


def last_iterations():
    """Candidate searches of the most recent completed poly_divmod loop."""
    return MON.last_iterations


def clear_iterations():
    MON.last_iterations = 0


def poison(on=True):
    POISON["on"] = bool(on)


def has_poison(arr):
    """True if some item of a numeric array is entirely 0xA5 bytes."""
    arr = numpy.ascontiguousarray(arr)
    if arr.size == 0 or arr.dtype.itemsize == 0:
        return False
    b = numpy.frombuffer(arr.tobytes(), dtype=numpy.uint8).reshape(arr.size, -1)
    return bool(numpy.any(numpy.all(b == 0xA5, axis=1)))


def poly_has_poison(p):
    raw = numpy.ndarray.view(p, numpy.ndarray)
    for key in raw.dtype.names or ():
        if has_poison(raw[key]):
            return True
    return False


def reset_case(numpoly):
    """Reset numpoly's global state and the hooks between cases."""
    try:
        opt = sys.modules["numpoly.option"]
        if _DEFAULTS and opt.GLOBAL_OPTIONS_DEFAULTS != _DEFAULTS:
            # a case managed to change the shipped defaults (that is a C14 failure, reported there):
            # restore them so that the following cases start from a sane state
            opt.GLOBAL_OPTIONS_DEFAULTS.clear()
            opt.GLOBAL_OPTIONS_DEFAULTS.update(_DEFAULTS)
        opt._NUMPOLY_OPTIONS.clear()
        opt._NUMPOLY_OPTIONS.update(_DEFAULTS or opt.GLOBAL_OPTIONS_DEFAULTS)
    except AttributeError:
        numpoly.set_options(**_DEFAULTS)
    MON.reset()
    POISON["on"] = False
