"""Model vs sympy cross-check and ring laws on the model itself (exit 2 on disagreement)."""
import os
import random
import sys

sys.path.insert(0, os.path.dirname(os.path.dirname(os.path.abspath(__file__))))

from fractions import Fraction  # noqa: E402

from pbt.model import MP, GQ, leading, order_key  # noqa: E402


def rand_mp(rng, nvars=3, terms=4, maxe=3, kind="i"):
    d = {}
    for _ in range(rng.randint(0, terms)):
        k = tuple(sorted((v, e) for v, e in ((v, rng.randint(0, maxe)) for v in range(nvars)) if e))
        if kind == "i":
            c = rng.randint(-4, 4)
        elif kind == "f":
            c = Fraction(rng.randint(-12, 12), 4)
        else:
            c = GQ(Fraction(rng.randint(-6, 6), 2), Fraction(rng.randint(-6, 6), 2))
        d[k] = c
    return MP(d)


def to_sympy(mp, syms):
    import sympy

    tot = sympy.Integer(0)
    for k, v in mp.d.items():
        if isinstance(v, GQ):
            c = sympy.Rational(v.re.numerator, v.re.denominator) + sympy.I * sympy.Rational(v.im.numerator, v.im.denominator)
        else:
            v = Fraction(v)
            c = sympy.Rational(v.numerator, v.denominator)
        t = c
        for n, e in k:
            t = t * syms[n] ** e
        tot = tot + t
    return sympy.expand(tot)


def main():
    import sympy

    rng = random.Random(12345)
    syms = sympy.symbols("x0:3")
    n = 0
    for kind in "ifc":
        for _ in range(60):
            a, b, c = (rand_mp(rng, kind=kind) for _ in range(3))
            sa, sb = to_sympy(a, syms), to_sympy(b, syms)
            checks = [
                (a + b, sa + sb), (a - b, sa - sb), (a * b, sa * sb), (-a, -sa),
                (a ** 2, sa ** 2), (a.diff(1), sympy.diff(sa, syms[1])),
                (a.subs({0: b}), sa.subs(syms[0], sb)),
            ]
            for got, exp in checks:
                if sympy.expand(to_sympy(got, syms) - exp) != 0:
                    print("selftest: model disagrees with sympy", got, exp)
                    return 2
                n += 1
            # ring laws on the model
            assert a + b == b + a and a * b == b * a
            assert (a + b) + c == a + (b + c) and a * (b + c) == a * b + a * c
            assert not (a - a) and a * 1 == a and a ** 3 == a * a * a
    # leading terms vs sympy LT under lex / grlex
    for _ in range(120):
        a = rand_mp(rng, kind="i")
        if not a:
            continue
        sa = to_sympy(a, syms)
        for graded, order in ((False, "lex"), (True, "grlex")):
            # reverse=True makes the first variable most significant = sympy's lex with gens x0,x1,x2
            vec, coef = leading(a, [0, 1, 2], graded=graded, reverse=True)
            lt = sympy.LT(sa, *syms, order=order)
            exp = coef
            for s, e in zip(syms, vec):
                exp = exp * s ** e
            if sympy.expand(lt - exp) != 0:
                print("selftest: leading term disagrees with sympy", a, lt, vec, coef)
                return 2
            n += 1
    assert order_key((1, 0)) < order_key((0, 1)) < order_key((2, 0))
    print("selftest: model agrees with sympy on %d checks" % n)
    return 0


if __name__ == "__main__":
    sys.exit(main())
