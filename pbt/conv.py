"""numpoly <-> model conversion, descriptions -> live objects, snapshots."""
import hashlib
import json

import numpy

from .model import MP, GQ, cval, simplify
from fractions import Fraction


class MalformedPoly(Exception):
    """A numpoly object whose attributes do not describe a polynomial."""


def var_index(name):
    digits = "".join(ch for ch in name if ch.isdigit())
    if not digits or not name.endswith(digits):
        raise MalformedPoly("name without numeric suffix: %r" % (name,))
    return int(digits)


def to_model(p):
    """ndpoly -> object ndarray of MP (reads names, exponents, coefficients)."""
    import numpoly

    if not isinstance(p, numpoly.ndpoly):
        raise MalformedPoly("not an ndpoly: %r" % (type(p),))
    names = tuple(p.names)
    exps = numpy.asarray(p.exponents)
    coefs = p.coefficients
    shape = tuple(p.shape)
    out = numpy.empty(shape, dtype=object)
    if out.size == 0:
        return out
    if exps.ndim != 2 or exps.shape[1] != len(names) or len(coefs) != len(exps):
        raise MalformedPoly(
            "attribute sizes: exponents %s names %s coefficients %d"
            % (exps.shape, names, len(coefs))
        )
    vidx = [var_index(n) for n in names]
    monos = []
    for e in exps.tolist():
        monos.append(tuple(sorted((v, int(x)) for v, x in zip(vidx, e) if int(x) > 0)))
    coefs = [numpy.asarray(c) for c in coefs]
    for c in coefs:
        if c.shape != shape:
            raise MalformedPoly("coefficient shape %s != %s" % (c.shape, shape))
    for idx in numpy.ndindex(*shape):
        d = {}
        for k, c in zip(monos, coefs):
            try:
                v = cval(c[idx])
            except (TypeError, ValueError) as err:
                raise MalformedPoly("coefficient %r: %s" % (c[idx], err))
            if v != 0:
                if k in d:
                    raise MalformedPoly("duplicate monomial %r" % (k,))
                d[k] = v
        out[idx] = MP(d)
    return out


def model_of(x):
    """Model of any polynomial-like: ndpoly, number, list, ndarray."""
    import numpoly

    if isinstance(x, numpoly.ndpoly):
        return to_model(x)
    if isinstance(x, numpy.ndarray) and x.dtype == object:
        return x
    a = numpy.asarray(x)
    out = numpy.empty(a.shape, dtype=object)
    for idx in numpy.ndindex(*a.shape):
        out[idx] = MP.const(a[idx])
    return out


# ---------------------------------------------------------------- descriptions
# poly description (JSON-able):
#   {"names": ["q0","q2"], "shape": [2,1], "kind": "i"|"f"|"c",
#    "terms": [[[e0,e1], [c0, c1, ...flat...]], ...], "retain": false}
# coefficients: kind i -> ints; f -> ints meaning value/4 ; c -> [re, im] int
# pairs meaning (re + im*j)/2.

KIND_DTYPE = {"i": "int64", "f": "float64", "c": "complex128", "b": "bool"}


def desc_dtype(desc):
    """Coefficient dtype of a description: an explicit "dtype" (narrow widths) or the kind's native one."""
    return desc.get("dtype") or KIND_DTYPE[desc["kind"]]


def coef_value(kind, c):
    if kind == "b":
        return bool(c)
    if kind == "i":
        return int(c)
    if kind == "f":
        if isinstance(c, list):   # [c, s]: c/4 * 2**-s, exact in binary floating point (tiny magnitudes)
            return c[0] / 4.0 * 2.0 ** -int(c[1])
        return c / 4.0
    return complex(c[0] / 2.0, c[1] / 2.0)


def coef_exact(kind, c):
    if kind == "b":
        return int(bool(c))
    if kind == "i":
        return int(c)
    if kind == "f":
        if isinstance(c, list):
            return simplify(Fraction(int(c[0]), 4 * 2 ** int(c[1])))
        return simplify(Fraction(int(c), 4))
    return simplify(GQ(Fraction(int(c[0]), 2), Fraction(int(c[1]), 2)))


def desc_shape(desc):
    return tuple(desc["shape"])


def desc_model(desc):
    """Model array straight from the description (no numpoly involved)."""
    shape = desc_shape(desc)
    vidx = [var_index(n) for n in desc["names"]]
    out = numpy.empty(shape, dtype=object)
    size = int(numpy.prod(shape, dtype=int)) if shape else 1
    acc = [dict() for _ in range(size)]
    for expo, coefs in desc["terms"]:
        k = tuple(sorted((v, int(e)) for v, e in zip(vidx, expo) if int(e) > 0))
        for i in range(size):
            v = coef_exact(desc["kind"], coefs[i])
            if v != 0:
                acc[i][k] = acc[i].get(k, 0) + v
    for i, idx in enumerate(numpy.ndindex(*shape)):
        out[idx] = MP(acc[i])
    return out


def build_poly(desc):
    """Description -> ndpoly via polynomial_from_attributes (native dtypes)."""
    import numpoly

    shape = desc_shape(desc)
    kind = desc["kind"]
    dtype = desc_dtype(desc)
    names = tuple(desc["names"])
    terms = desc["terms"]
    if not terms:
        exps = [[0] * len(names)]
        coefs = [numpy.zeros(shape, dtype=dtype)]
    else:
        exps = [list(e) for e, _ in terms]
        coefs = [
            numpy.array([coef_value(kind, c) for c in cs], dtype=dtype).reshape(shape)
            for _, cs in terms
        ]
    retain = bool(desc.get("retain", False))
    return numpoly.polynomial_from_attributes(
        exps, coefs, names, dtype=dtype,
        retain_coefficients=True if retain else None,
        retain_names=True if retain else None,
    )


def build_checked(desc):
    """Build and validate against the description; returns (poly, model).

    Raises BuilderMismatch when the constructor does not return what was
    described (owned by C03/C12; other checks discard the case).
    """
    p = build_poly(desc)
    m = desc_model(desc)
    try:
        got = to_model(p)
    except MalformedPoly as err:
        raise BuilderMismatch(str(err))
    if tuple(p.shape) != desc_shape(desc):
        raise BuilderMismatch("shape %s != %s" % (p.shape, desc_shape(desc)))
    if got.shape != m.shape or any(
        not (got[i] == m[i]) for i in numpy.ndindex(*m.shape)
    ):
        raise BuilderMismatch("constructor returned a different polynomial")
    if str(p.dtype) != desc_dtype(desc):
        raise BuilderMismatch("dtype %s" % (p.dtype,))
    return p, m


class BuilderMismatch(Exception):
    pass


# numeric operand descriptions:
#   {"num": "pyint"|"pyfloat"|"pycomplex"|"pybool"|"npscalar"|"list"|"array",
#    "shape": [...], "kind": "i"|"f"|"c", "values": [flat], "order": "C"|"F",
#    "view": bool, "readonly": bool}

def build_numeric(desc):
    kind = desc["kind"]
    vals = [coef_value(kind, c) for c in desc["values"]]
    how = desc["num"]
    if how in ("pyint", "pyfloat", "pycomplex"):
        return vals[0]
    if how == "pybool":
        return bool(vals[0])
    dtype = KIND_DTYPE[kind]
    shape = tuple(desc.get("shape", ()))
    if how == "npscalar":
        return numpy.dtype(dtype).type(vals[0])
    arr = numpy.array(vals, dtype=dtype).reshape(shape)
    if how == "list":
        return arr.tolist()
    if desc.get("order") == "F" and arr.ndim >= 2:
        arr = numpy.asfortranarray(arr)
    if desc.get("view") and arr.ndim >= 1 and arr.shape[-1] >= 1:
        big = numpy.zeros(arr.shape[:-1] + (arr.shape[-1] * 2,), dtype=dtype)
        big[..., ::2] = arr
        arr = big[..., ::2]
    if desc.get("readonly"):
        arr.setflags(write=False)
    return arr


def numeric_model(desc):
    kind = desc["kind"]
    shape = tuple(desc.get("shape", ()))
    if desc["num"] in ("pyint", "pyfloat", "pycomplex", "pybool", "npscalar"):
        shape = ()
    out = numpy.empty(shape, dtype=object)
    vals = desc["values"]
    for i, idx in enumerate(numpy.ndindex(*shape)):
        v = coef_exact(kind, vals[i])
        if desc["num"] == "pybool":
            v = int(bool(v))
        out[idx] = MP.const(v)
    return out


def build_operand(desc):
    """(live object, model array) for either kind of description."""
    if "num" in desc:
        return build_numeric(desc), numeric_model(desc)
    return build_checked(desc)


# ---------------------------------------------------------------- snapshots

def snapshot(x):
    """Byte-level snapshot of an argument (polynomial, ndarray, list, scalar)."""
    import numpoly

    if isinstance(x, numpoly.ndpoly):
        raw = numpy.ndarray.view(x, numpy.ndarray)
        return (
            "poly",
            tuple(x.shape),
            str(x.dtype),
            tuple(x.names),
            tuple(str(k) for k in x.keys),
            numpy.asarray(x.exponents).tobytes(),
            numpy.ascontiguousarray(raw).tobytes(),
        )
    if isinstance(x, numpy.ndarray):
        return ("array", x.shape, str(x.dtype), x.strides,
                numpy.ascontiguousarray(x).tobytes(), x.flags.writeable)
    if isinstance(x, (list, tuple)):
        return (type(x).__name__, tuple(snapshot(i) for i in x))
    if isinstance(x, dict):
        return ("dict", tuple((k, snapshot(v)) for k, v in sorted(x.items(), key=repr)))
    return ("scalar", type(x).__name__, repr(x))


def rep_equal(a, b):
    """Representation-identical polynomials (names, keys, shape, dtype, bytes)."""
    return snapshot(a) == snapshot(b)


def case_hash(case):
    blob = json.dumps(case, sort_keys=True, default=str).encode()
    return hashlib.sha1(blob).hexdigest()[:14]


def jsonable(x):
    """Best-effort JSON-able rendering for evidence samples and messages."""
    if isinstance(x, (str, int, float, bool)) or x is None:
        return x
    if isinstance(x, (list, tuple)):
        return [jsonable(i) for i in x]
    if isinstance(x, dict):
        return {str(k): jsonable(v) for k, v in x.items()}
    return repr(x)
