"""C10 Reductions and linear algebra equal finite sums and products of elements."""
import itertools

import numpy
from hypothesis import strategies as st

from .. import gen
from ..catalogue import RECIPES, PolyOperands, resolve, operand_descs, invoke, spellings_of
from ..conv import to_model, MalformedPoly
from ..core import Failure
from ..model import MP, arr_close, first_diff

ID = "C10"
BUDGET = {"quick": 1000, "thorough": 10000}
TECHNIQUE = ("Hypothesis-generated (polynomial arrays, axis/keepdims/n/prepend/append/operand-shape choices) vs numpy "
             "folds on object arrays of exact model polynomials (Leibniz sum for det); method / add.reduce / "
             "add.accumulate spelling differential")
LEVEL_TEXT = ("sum, cumsum, mean, prod, diff, ediff1d, inner, outer, matmul (vector/matrix/stacked combinations) and "
              "det (1x1..4x4, stacked) are compared with numpy.add.reduce/multiply.reduce/add.accumulate/diff/inner/"
              "outer/matmul on object arrays of model elements in exact arithmetic, for every axis / axis tuple / "
              "keepdims / n / prepend / append choice drawn; method and ufunc.reduce/accumulate spellings must agree.")
RULE = (
    "1-3-d polynomial arrays (1-3 names, 0-4 terms, exponents <= 2, int/float) x axis in {None, ints, negative "
    "ints, tuples} x keepdims for sum/prod/mean; cumsum axis; diff n in 0..3, axis, prepend/append polynomials; "
    "ediff1d to_begin/to_end; inner of vectors; outer; matmul of vv/vm/mv/mm/stacked shapes numpy accepts; det of "
    "1x1..4x4 and stacked matrices. Oracle: the numpy function on the object array of model elements (exact), "
    "mean = sum * Fraction(1,n) with float tolerance 1e-9, determinant by the Leibniz sum; spellings numpoly.f, "
    "numpy.f, method, numpy.add.reduce / accumulate (axis spelled out, and axis omitted = axis 0) must return model-equal results. "
    "non-trivial = >= 2 elements with different monomials are combined (reduced axis length >= 2 / inner dimension >= 2)."
)
LEVEL_TEXT += (" Also drawn: initial= for sum/prod, numpy-integer axes, the axis-omitted ufunc.reduce/accumulate spelling (axis 0), big-integer determinants (entries to 2**30), determinants of narrow and unsigned integer matrices and integer arrays with fractional diff/ediff1d boundaries.")
ASSUMPTIONS = [
    "ediff1d's to_begin/to_end have a kind numpy can cast to the array's (same kind, or int into float); diff's prepend/append may have any kind (numpy promotes)",
    "ufunc.reduce/accumulate with the axis omitted reduce along axis 0 (numpy's definition), unlike sum/cumsum whose default is axis=None: the axis-omitted ufunc spelling is compared with the axis=0 result",
    "a case numpy rejects on the object array is discarded and counted",
]

FUNCS = ["sum", "sum", "cumsum", "mean", "prod", "diff", "ediff1d", "inner", "outer", "matmul", "matmul", "det"]
OG = PolyOperands(max_terms=4, max_exp=2, kinds="if", max_names=3)


@st.composite
def case_st(draw, only=None):
    fn = only or draw(st.sampled_from(FUNCS))
    call = RECIPES[fn].gen(draw, OG)
    call["fn"] = fn
    if fn == "det" and call["args"][0]["$p"].get("kind") == "i" and draw(st.booleans()):
        # entries stored in a narrow or unsigned type: the determinant is still the exact signed sum of products
        a = call["args"][0]["$p"]
        if all(abs(int(c)) < 100 for t in a["terms"] for c in t[1]):
            a["dtype"] = draw(st.sampled_from(["uint64", "uint64", "uint64", "uint8", "uint16", "uint32", "int8", "int16", "int32"]))
            if a["dtype"].startswith("u"):
                for t in a["terms"]:
                    t[1] = [abs(int(c)) for c in t[1]]
    if fn == "ediff1d" and draw(st.sampled_from([0, 1, 1])):
        # boundary values are always present in this half, and of a kind numpy casts into the array's
        a = call["args"][0]["$p"]
        for key in ("to_begin", "to_end"):
            if key not in call["kw"] or draw(st.sampled_from([0, 1])):
                k = "i" if (a["kind"] == "f" and draw(st.sampled_from([0, 1, 1]))) else a["kind"]
                call["kw"][key] = {"$p": OG.related(draw, a, (draw(st.sampled_from([1, 2])),), kind=k)}
    if fn == "diff" and call["args"][0]["$p"]["kind"] == "i" and draw(st.sampled_from([0, 1])):
        # an integer array with fractional boundary values: the result takes numpy's promoted dtype
        a = call["args"][0]["$p"]
        ax = call["kw"].get("axis", -1)
        key = draw(st.sampled_from(["prepend", "append"]))
        if key not in call["kw"]:
            s = list(a["shape"])
            s[ax] = draw(st.integers(1, 2))
            call["kw"][key] = {"$p": OG.related(draw, a, tuple(s), kind="f")}
        else:
            call["kw"][key]["$p"]["kind"] = "f"  # (float coefficients are stored as quarters)
    return call


def strategy(tier):
    return case_st()


def STRATA(tier):
    return ["sum", "cumsum", "mean", "prod", "diff", "diff-2", "ediff1d", "inner", "outer", "matmul", "matmul-2", "det"]


def strategy_for(tier, name):
    return case_st(only=name.split("-")[0])


def leibniz(m):
    n = m.shape[-1]
    if m.ndim > 2:
        out = numpy.empty(m.shape[:-2], dtype=object)
        for idx in numpy.ndindex(*m.shape[:-2]):
            out[idx] = leibniz(m[idx])
        return out
    tot = MP()
    for perm in itertools.permutations(range(n)):
        sign = 1
        for i in range(n):
            for j in range(i + 1, n):
                if perm[i] > perm[j]:
                    sign = -sign
        term = MP.const(sign)
        for i in range(n):
            term = term * MP.lift(m[i, perm[i]])
        tot = tot + term
    return tot


def check_case(case, ctx):
    import numpoly

    fn = case["fn"]
    rec = RECIPES[fn]
    args = resolve(case["args"], "live")
    kw = resolve(case["kw"], "live")
    margs = resolve(case["args"], "model")
    mkw = resolve(case["kw"], "model")
    mkw.pop("dtype", None)  # the model is exact: a requested result dtype only concerns storage
    fails = []

    expected_box = []

    def cls():
        if expected_box and expected_box[0].size == 0:
            return "empty-result"
        if fn == "matmul" and (margs[0].ndim == 1 or margs[1].ndim == 1):
            return "vector-operand"
        if fn in ("sum", "prod", "mean"):
            ax = kw.get("axis")
            return ("axis-tuple" if isinstance(ax, tuple) else ("axis-none" if ax is None else "axis-int")) + (
                ",keepdims" if kw.get("keepdims") else "")
        if fn == "matmul":
            return "%dd@%dd" % (margs[0].ndim, margs[1].ndim)
        if fn == "det":
            n = margs[0].shape[-1]
            return "%dx%d%s" % (n, n, ",stacked" if margs[0].ndim > 2 else "")
        if fn == "diff":
            n = kw.get("n", 1)
            length = margs[0].shape[kw.get("axis", -1)] + sum(
                mkw[k].shape[kw.get("axis", -1)] for k in ("prepend", "append") if k in mkw)
            return "n>=length" if n >= length else ("n>=2,boundary" if n >= 2 and ("prepend" in kw or "append" in kw) else "plain")
        if fn == "ediff1d":
            return "size<=1" if margs[0].size <= 1 else "plain"
        return ""

    def fail(kind, msg):
        fails.append(Failure("%s:%s:%s" % (fn, kind, cls()), msg))
        return fails

    try:
        if fn == "det":
            expected = leibniz(margs[0])
            if isinstance(expected, MP):
                expected = numpy.array(expected, dtype=object)
        elif fn == "mean" and "where" in mkw:
            # (numpy cannot mask a fold over objects without a start value: the masked mean written out)
            mask = numpy.broadcast_to(numpy.asarray(mkw["where"], dtype=bool), margs[0].shape)
            rest = {k: v for k, v in mkw.items() if k != "where"}
            count = numpy.sum(mask, **rest)
            if not numpy.all(count):
                ctx.discard_case("mean-of-nothing")
                return []
            filled = numpy.where(mask, margs[0], MP())
            expected = numpy.asarray(numpy.sum(filled, **rest), dtype=object) / count
        else:
            expected = getattr(numpy, rec.np_name)(*margs, **mkw)
    except Exception:
        ctx.discard_case("numpy-rejects:" + fn)
        return []
    expected = numpy.asarray(expected, dtype=object)
    if expected.ndim == 0 and not isinstance(expected.item(), MP):
        expected = numpy.array(MP.lift(expected.item()), dtype=object)

    expected_box.append(expected)
    results = {}
    for sp in spellings_of(rec, args, kw):
        if sp == "method" and fn == "cumsum":
            pass
        try:
            results[sp] = invoke(rec, args, kw, sp)
        except Exception as err:
            return fail("exception:%s:%s" % (type(err).__name__, "numpoly" if sp in ("numpoly", "numpy") else sp),
                        "%s spelling: %r" % (sp, err))
    for sp, got in results.items():
        if not isinstance(got, numpoly.ndpoly):
            return fail("type", "%s spelling returned %r" % (sp, type(got)))
        try:
            gm = to_model(got)
        except MalformedPoly as err:
            return fail("malformed", str(err))
        spc = "" if sp in ("numpoly", "numpy") else (":" + sp)
        if tuple(gm.shape) != tuple(expected.shape):
            return fail("shape" + spc, "%s spelling: shape %s, exact fold gives %s" % (sp, gm.shape, expected.shape))
        if fn == "mean":
            ok = arr_close(gm, expected, 1e-9)
            diff = None if ok else first_diff(gm, expected)
        else:
            diff = first_diff(gm, expected)
        if diff:
            return fail("value" + spc, "%s spelling: %s" % (sp, diff))
    ctx.label("fn:" + fn)
    for key in ("where", "initial", "dtype"):
        if key in kw:
            ctx.label("kw:%s:%s" % (fn, key))
    ctx.label("class:%s:%s" % (fn, cls()))
    for sp in results:
        if sp not in ("numpoly", "numpy"):
            ctx.label("spelling:" + sp)
    # non-trivial: something was actually combined
    first = margs[0]
    nt = False
    if fn in ("sum", "prod", "mean", "cumsum", "diff", "ediff1d"):
        distinct = len({repr(sorted(e.d.items(), key=repr)) for e in first.flat}) >= 2
        nt = distinct and first.size >= 2 and expected.size != first.size or (fn in ("cumsum", "diff", "ediff1d") and distinct)
    elif fn in ("inner", "matmul"):
        nt = first.shape[-1] >= 2
    elif fn == "outer":
        nt = first.size >= 2 or margs[1].size >= 2
    elif fn == "det":
        nt = first.shape[-1] >= 2
    ctx.nontrivial(bool(nt))
    return fails
