"""C01 Ring arithmetic on polynomial arrays is exact."""
import numpy
from hypothesis import strategies as st

from .. import gen
from ..conv import build_operand, to_model, MalformedPoly
from ..core import Failure
from ..model import MP, arr_map, first_diff

ID = "C01"
BUDGET = {"quick": 800, "thorough": 6000}
TECHNIQUE = 'Hypothesis expression-tree generation vs exact polynomial model + ring-law metamorphic relations'
LEVEL_TEXT = 'Every node of generated expression trees (depth <= 4, mixed operand kinds, broadcast families, equal/overlapping/disjoint names) is compared with an independent exact model; ring laws are metamorphic relations on the same leaves.'
FUZZ_RUNS = {"thorough": 3000}  # atheris/libFuzzer campaign over the same strategy and oracle
RULE = (
    "Hypothesis-generated expression trees of depth <= 4 over + - unary- unary+ * ** "
    "(scalar exponents 0-5 and integer array exponents) whose leaves come from one "
    "broadcast family: polynomial arrays (0-d..3-d, 1-4 names from q0,q1,q2,q3,q10,q12 "
    "in equal/overlapping/disjoint sets, 0-6 terms, int64/float64/complex128 dyadic "
    "coefficients) and Python scalars / numpy scalars / lists / ndarrays on either side; "
    "EVERY node is compared with the exact sparse-polynomial model (type ndpoly, numpy "
    "broadcast shape, element values) and ring laws are checked as metamorphic relations "
    "on the leaves. non-trivial = some binary node has operands differing in name set or "
    "shape AND some polynomial leaf has >= 2 terms; distinct = hash of the case JSON."
)
LEVEL_TEXT += (" Operand exponents are stretched by 23/35/70 in three of eight cases, so products and powers also take the large-exponent code path. One case in twelve raises a narrow-integer (int8/uint8/int16/int32) base to an int64 array of exponents 0-5.")
ASSUMPTIONS = [
    "exact model (pbt/model.py) cross-checked against sympy by pbt.selftest",
    "dyadic float/complex coefficients: float arithmetic on them is exact, so values are compared exactly",
    "narrow numpy scalar dtypes are C12's domain and are not generated here",
    "extension modules (.so) as built in the tree",
]

BIN = ["add", "sub", "mul"]


@st.composite
def exponent_desc(draw, base_shape, target):
    """Scalar exponent or integer array exponent broadcasting with the base."""
    if draw(st.integers(0, 2)) == 0:
        # array exponent: shape from the same broadcast family
        shp = gen.broadcast_member(draw, target) if draw(st.booleans()) else tuple(target)
        size = gen.size_of(shp)
        vals = draw(st.lists(st.integers(0, 3), min_size=size, max_size=size))
        how = draw(st.sampled_from(["array", "list"]))
        return {"shape": list(shp), "values": vals, "how": how}
    k = draw(st.sampled_from([0, 1, 2, 2, 3, 3, 4, 5]))
    how = draw(st.sampled_from(["int", "int", "npint", "float"]))
    return {"scalar": k, "how": how}


@st.composite
def tree_case(draw):
    target = draw(gen.shape_st(3))
    base_names = draw(gen.names_st())
    if draw(st.integers(0, 11)) == 0:
        # an integer base stored in a narrow type raised to an (int64) array of exponents: numpy's promoted type
        # holds every exact power here, so the result is the exact power
        d = draw(gen.poly_desc(names=base_names, shape=tuple(target), kind="i", max_terms=3, max_exp=2, min_terms=1))
        d["dtype"] = draw(st.sampled_from(["int8", "uint8", "int16", "int32"]))
        for t in d["terms"]:
            t[1] = [(abs(int(c)) if d["dtype"] == "uint8" else int(c)) for c in t[1]]
        shp = gen.broadcast_member(draw, target) or (1,)  # (a 0-d list would be a plain Python number: weak promotion)
        size = gen.size_of(shp)
        vals = draw(st.lists(st.integers(0, 5), min_size=size, max_size=size))
        return {"leaves": [d], "tree": ["pow", ["leaf", 0], {"shape": list(shp), "values": vals,
                                                            "how": draw(st.sampled_from(["array", "list"]))}]}
    kinds = draw(st.sampled_from(["i", "i", "f", "c", "if", "ifc"]))
    nleaves = draw(st.integers(2, 4))
    leaves = []
    for i in range(nleaves):
        shp = tuple(target) if (i == 0 and draw(st.booleans())) else gen.broadcast_member(draw, target)
        kind = draw(st.sampled_from(list(kinds)))
        if i >= 1 and draw(st.integers(0, 3)) == 0:
            if draw(st.booleans()):
                shp = ()
            leaves.append(draw(gen.numeric_desc(shape=shp, kind=kind)))
        elif i >= 1 and "num" not in leaves[0] and draw(st.integers(0, 3)) == 0:
            leaves.append(gen.derive(draw, leaves[0], shp))
        else:
            names = base_names if i == 0 else draw(gen.related_names(
                base_names, how=["equal", "overlap", "disjoint", "disjoint", "free"]))
            leaves.append(draw(gen.poly_desc(names=names, shape=shp, kind=kind,
                                             max_terms=5, max_exp=2)))
    # sometimes the same operands with all exponents stretched: term counts stay, but products and powers
    # reach exponents >= 69 / >= 197, where the product takes another code path than for small ones
    scale = draw(st.sampled_from([1, 1, 1, 1, 1, 23, 35, 70]))
    if scale > 1:
        for d in leaves:
            if "num" not in d:
                d["terms"] = [[[e * scale for e in t[0]], t[1]] for t in d["terms"]]
    is_poly = ["num" not in d for d in leaves]
    nterms = [max(1, len(d.get("terms", [1]))) for d in leaves]
    poly_ids = [i for i, f in enumerate(is_poly) if f]

    def leaf(want_poly=False):
        ids = poly_ids if want_poly else list(range(nleaves))
        i = draw(st.sampled_from(ids))
        return ["leaf", i], is_poly[i], nterms[i], (2 * len(leaves[i].get("names", [])) if is_poly[i] else 0)

    def node(depth, want_poly=False, top=False):
        # returns (tree, is_poly, est_terms, est_degree)
        if depth <= 0 or (not top and draw(st.integers(0, 5)) == 0):
            return leaf(want_poly)
        op = draw(st.sampled_from(["add", "sub", "mul", "mul", "neg", "pos", "pow", "add"]))
        if op in ("neg", "pos"):
            t, p, n, d = node(depth - 1, True)
            return [op, t], True, n, d
        if op == "pow":
            t, p, n, d = node(depth - 1, True)
            e = draw(exponent_desc(None, target))
            k = e["scalar"] if "scalar" in e else max(e["values"] or [0])
            if n ** max(k, 1) > 300 or d * max(k, 1) > 24:
                e = {"scalar": 1 if n > 20 else 2, "how": "int"}
                k = e["scalar"]
                if n ** k > 300:
                    e = {"scalar": 1, "how": "int"}
                    k = 1
            return ["pow", t, e], True, max(1, n ** max(k, 1)), d * max(k, 1)
        a, pa, na, da = node(depth - 1, False)
        b, pb, nb, db = node(depth - 1, not pa)
        if op == "mul" and (na * nb > 300 or da + db > 24):
            op = "add"
        if op == "mul":
            return [op, a, b], True, na * nb, da + db
        return [op, a, b], True, na + nb, max(da, db)

    tree, p, n, d = node(draw(st.sampled_from([1, 2, 2, 3, 3, 4])), True, top=True)
    return {"leaves": leaves, "tree": tree}


def strategy(tier):
    return tree_case()


def build_exponent(e):
    if "scalar" in e:
        k = e["scalar"]
        how = e.get("how", "int")
        if how == "npint":
            return numpy.int64(k), k
        if how == "float":
            return float(k), k
        return k, k
    arr = numpy.array(e["values"], dtype=int).reshape(tuple(e["shape"]))
    return (arr.tolist() if e["how"] == "list" else arr), arr


def names_of(desc):
    return tuple(desc.get("names", ()))


def check_case(case, ctx):
    import numpoly

    fails = []
    live = []
    models = []
    for d in case["leaves"]:
        obj, m = build_operand(d)
        live.append(obj)
        models.append(m)
    descs = case["leaves"]
    if any("num" not in d and len(d["terms"]) >= 2 for d in descs):
        multi = True
    else:
        multi = False
    differ = [False]
    abort = [False]

    def tree_names(t):
        if t[0] == "leaf":
            return set(descs[t[1]].get("names", ()))
        out = set()
        for sub in t[1:]:
            if isinstance(sub, list):
                out |= tree_names(sub)
        return out

    def classify(a, b):
        da = a[0] == "leaf" and descs[a[1]]
        db = b[0] == "leaf" and descs[b[1]]
        na, nb = tree_names(a), tree_names(b)
        if na and nb:
            rel = "equal" if na == nb else ("disjoint" if not (na & nb) else "overlap")
            ctx.label("names:" + rel)
            if rel != "equal":
                differ[0] = True
        if da and "num" in da:
            ctx.label("numeric-left:" + da["num"])
        if db and "num" in db:
            ctx.label("numeric-right:" + db["num"])

    def ev(t):
        """returns (live, model) or None after a failure was recorded."""
        if abort[0]:
            return None
        op = t[0]
        if op == "leaf":
            return live[t[1]], models[t[1]]
        if op in ("neg", "pos"):
            sub = ev(t[1])
            if sub is None:
                return None
            x, m = sub
            expect = arr_map((lambda v: -v) if op == "neg" else (lambda v: v), m)
            try:
                got = -x if op == "neg" else +x
            except Exception as err:
                return fail(op, "exception:" + type(err).__name__, "unary", repr(err))
            return verdict(op, "unary", got, expect)
        if op == "pow":
            sub = ev(t[1])
            if sub is None:
                return None
            x, m = sub
            e_live, e_model = build_exponent(t[2])
            cls = "scalar-exponent" if "scalar" in t[2] else "array-exponent"
            ctx.label("pow:" + cls)
            if "scalar" in t[2]:
                expect = arr_map(lambda v: MP.lift(v) ** e_model, m)
            else:
                ee = numpy.asarray(e_model)
                shape = numpy.broadcast_shapes(m.shape, ee.shape)
                mm = numpy.broadcast_to(m, shape)
                eb = numpy.broadcast_to(ee, shape)
                expect = numpy.empty(shape, dtype=object)
                for idx in numpy.ndindex(*shape):
                    expect[idx] = MP.lift(mm[idx]) ** int(eb[idx])
                if len(shape) >= 3:
                    cls += ",result-ndim>=3"
                if ee.shape != m.shape:
                    ctx.label("pow:exponent-broadcasts")
                    differ[0] = True
            try:
                got = x ** e_live
            except Exception as err:
                return fail("pow", "exception:" + type(err).__name__, cls, repr(err))
            return verdict("pow", cls, got, expect)
        a = ev(t[1])
        b = ev(t[2]) if a is not None else None
        if a is None or b is None:
            return None
        (xa, ma), (xb, mb) = a, b
        classify(t[1], t[2])
        if ma.shape != mb.shape:
            ctx.label("shapes-differ")
            differ[0] = True
        f = {"add": lambda u, v: MP.lift(u) + v, "sub": lambda u, v: MP.lift(u) - v,
             "mul": lambda u, v: MP.lift(u) * v}[op]
        expect = arr_map(f, ma, mb)
        pa = isinstance(xa, numpoly.ndpoly)
        pb = isinstance(xb, numpoly.ndpoly)
        cls = "poly-poly" if pa and pb else ("numeric-left" if pb else "numeric-right")
        try:
            got = xa + xb if op == "add" else (xa - xb if op == "sub" else xa * xb)
        except Exception as err:
            return fail(op, "exception:" + type(err).__name__, cls, repr(err))
        if op in ("add", "sub") and any(
                (not e) and (u or v) for e, u, v in zip(expect.flat, numpy.broadcast_to(ma, expect.shape).flat,
                                                         numpy.broadcast_to(mb, expect.shape).flat)):
            ctx.label("cancellation-to-zero")
        return verdict(op, cls, got, expect)

    def fail(op, kind, cls, msg):
        fails.append(Failure("%s:%s:%s" % (op, kind, cls), msg))
        abort[0] = True
        return None

    def verdict(op, cls, got, expect):
        if not isinstance(got, numpoly.ndpoly):
            return fail(op, "type", cls, "result is %r, not ndpoly" % (type(got),))
        if tuple(got.shape) != tuple(expect.shape):
            return fail(op, "shape", cls, "shape %s, numpy broadcast shape %s" % (got.shape, expect.shape))
        try:
            gm = to_model(got)
        except MalformedPoly as err:
            return fail(op, "malformed", cls, str(err))
        diff = first_diff(gm, expect)
        if diff:
            return fail(op, "value", cls, diff)
        return got, expect

    root = ev(case["tree"])

    # ring laws on the leaves, decided in the model of both sides
    polys = [(x, m) for x, m, d in zip(live, models, descs) if "num" not in d]
    if root is not None and len(polys) >= 2:
        (a, ma), (b, mb) = polys[0], polys[1]
        c = polys[2][0] if len(polys) > 2 else live[-1]
        laws = [
            ("commutative-add", lambda: (a + b, b + a)),
            ("commutative-mul", lambda: (a * b, b * a)),
            ("associative-add", lambda: ((a + b) + c, a + (b + c))),
            ("distributive", lambda: (a * (b + c), a * b + a * c)),
            ("self-cancel", lambda: (a - a, 0 * a)),
            ("unit", lambda: (a * 1, a)),
            ("power-sum", lambda: (a ** 3, a ** 1 * a ** 2)),
            ("power-product", lambda: ((a * b) ** 2, a ** 2 * b ** 2)),
        ]
        for name, fn in laws:
            try:
                lhs, rhs = fn()
                diff = first_diff(to_model(lhs), to_model(rhs))
            except Exception as err:
                fails.append(Failure("law:%s:exception:%s" % (name, type(err).__name__), repr(err)))
                break
            if diff:
                fails.append(Failure("law:%s:value" % name, diff))
                break
        ctx.label("ring-laws-checked")
    if any(not m.flat[i] for m in models for i in range(m.size)):
        ctx.label("zero-element-in-leaf")
    kinds = {d["kind"] for d in descs}
    ctx.label("kinds:" + "".join(sorted(kinds)))
    ctx.nontrivial(differ[0] and multi)
    return fails
