"""C06 Derivative, gradient and Hessian are the formal partial derivatives."""
import numpy
from hypothesis import strategies as st

from .. import gen
from ..conv import build_checked, to_model, MalformedPoly, var_index
from ..core import Failure
from ..model import MP, arr_map, first_diff

ID = "C06"
BUDGET = {"quick": 500, "thorough": 8000}
TECHNIQUE = 'Hypothesis-generated (polynomial, variable designations, option setting) vs exact formal derivative; linearity/product-rule/mixed-partials metamorphic relations'
LEVEL_TEXT = "derivative/gradient/hessian on generated arrays under all 16 retain/sort settings with every designation form are compared with the model's formal partial derivatives and the stated result shapes."
RULE = (
    "polynomial arrays (0-d..3-d, 1-4 names, 0-6 terms, exponents <= 3, int/float/complex and (5%) int8/uint8/int16/uint16/uint32/int32/"
    "bool storage with values at the limits of the type, including "
    "constants, the zero polynomial, redundant zero terms and unused names) x 1-3 differentiation "
    "variables each designated as name / positional index / p.indeterminants[i] / numpoly.symbols(name) / "
    "numpoly.variable(k)[i] x all 16 settings of retain_names, retain_coefficients, sort_graded, "
    "sort_reverse (drawn uniformly; inputs are built under defaults, calls run inside the setting). "
    "Oracle: successive formal partial derivative in the exact model; gradient shape (D,)+shape with "
    "entry i the partial w.r.t. names[i]; hessian shape (D,D)+shape with entry (i,j) the second partial; "
    "metamorphic: linearity, product rule, commuting mixed partials. non-trivial = some term has the "
    "variable with exponent >= 2 and another term is free of it."
)
LEVEL_TEXT += (" Positional variables are also given as numpy integers.")
ASSUMPTIONS = [
    "dyadic coefficients: exponent*coefficient is exact in float arithmetic",
    "D is the number of names of the input object as constructed (default options)",
]

FLAGS = ["retain_names", "retain_coefficients", "sort_graded", "sort_reverse"]


@st.composite
def case_st(draw):
    names = draw(gen.names_st(max_size=4))
    desc = draw(gen.poly_desc(names=names, max_terms=6, max_exp=3, max_ndim=3))
    if desc["kind"] == "i" and draw(st.booleans()):
        # narrow integer storage with values near its limits: exponent*coefficient no longer fits
        # the storage dtype, the formal derivative must still be exact
        desc["dtype"] = draw(st.sampled_from(["int8", "uint8", "int16", "bool", "uint16", "uint32", "uint32", "uint32", "int32"]))
        lo, hi = {"int8": (-128, 127), "uint8": (0, 255), "int16": (-300, 300), "bool": (0, 1), "uint16": (0, 65535),
                  "uint32": (0, 2 ** 32 - 1), "int32": (-2 ** 31, 2 ** 31 - 1)}[desc["dtype"]]
        if desc["dtype"] == "bool":
            desc["kind"] = "b"
        size = gen.size_of(tuple(desc["shape"]))
        for t in desc["terms"]:
            t[1] = draw(st.lists(st.sampled_from([0, 1, hi, lo, hi // 2, 100 if hi >= 100 else 1]),
                                 min_size=size, max_size=size))
        desc.pop("dtype") if desc["kind"] == "b" else None
        if desc.get("dtype") not in ("uint16", "uint32", "int32") and draw(st.integers(0, 2)) == 0:
            # (the wider narrow types at their limits times such factors would leave 64 bits altogether)
            # ... and with exponents whose repeated factors leave 32 bits: e*(e-1) > 2**32 from e = 65537 on,
            # e*(e-1)*(e-2) already for e = 2000
            scale = draw(st.sampled_from([700, 20000, 33000]))
            desc["terms"] = [[[e * scale for e in t[0]], t[1]] for t in desc["terms"]]
        narrow = True
    else:
        narrow = False
    op = draw(st.sampled_from(["derivative", "derivative", "derivative", "gradient", "hessian", "laws"]))
    if narrow and op == "laws":
        op = draw(st.sampled_from(["gradient", "hessian", "derivative"]))  # (products of narrow integers wrap by numpy's own rules: no law to check there)
    nv = draw(st.integers(1, 3))
    dvars = []
    for _ in range(nv):
        i = draw(st.integers(0, len(names) - 1))
        how = draw(st.sampled_from(["name", "index", "index-numpy", "indet", "symbol", "variable"]))
        dvars.append({"i": i, "how": how})
    opts = {f: draw(st.booleans()) for f in FLAGS}
    if draw(st.integers(0, 3)) == 0:
        opts = {}
    other = draw(gen.poly_desc(names=names, shape=desc["shape"], kind=desc["kind"], max_terms=3,
                               max_exp=2, retain=False))
    return {"poly": desc, "op": op, "vars": dvars, "opts": opts, "other": other}


def strategy(tier):
    return case_st()


def designate(numpoly, p, names, dv):
    i = dv["i"]
    name = names[i]
    how = dv["how"]
    if how == "name":
        return name
    if how == "index":
        return i
    if how == "index-numpy":  # a positional index as numpy hands them out (numpy.argmax, arange()[k], ...)
        return numpy.int64(i)
    if how == "indet":
        return p.indeterminants[i]
    if how == "symbol":
        return numpoly.symbols(name)
    # numpoly.variable(k)[j] is named q<j>
    j = var_index(name)
    if j > 12:
        return numpoly.symbols(name)
    return numpoly.variable(j + 2)[j]


def check_case(case, ctx):
    import numpoly

    p, pm = build_checked(case["poly"])
    names = list(p.names)
    vidx = [var_index(n) for n in names]
    opts = case["opts"]
    op = case["op"]
    fails = []
    dflt = numpoly.get_options(defaults=True)
    if opts.get("retain_coefficients", dflt["retain_coefficients"]):
        optcls = "retain_coefficients=True"
    elif not opts.get("retain_names", dflt["retain_names"]):
        optcls = "retain_names=False"
    else:
        optcls = "default-retain"

    def fail(where, kind, msg):
        fails.append(Failure("%s:%s:%s" % (where, kind, optcls), msg))
        return fails

    def model(x, where):
        if not isinstance(x, numpoly.ndpoly):
            raise MalformedPoly("%s returned %r" % (where, type(x)))
        return to_model(x)

    with numpoly.global_options(**opts):
        if op in ("derivative", "laws"):
            dvs = case["vars"]
            hows = "polynomial-designation" if any(
                d["how"] in ("indet", "symbol", "variable") for d in dvs) else "name-or-index"
            try:
                designs = [designate(numpoly, p, names, d) for d in dvs]
            except Exception as err:
                return fail("designate", "exception:" + type(err).__name__, repr(err))
            expect = pm
            for d in dvs:
                expect = arr_map(lambda e, v=vidx[d["i"]]: e.diff(v), expect)
            try:
                res = numpoly.derivative(p, *designs)
            except Exception as err:
                return fail("derivative", "exception:%s:%s" % (type(err).__name__, hows), repr(err))
            try:
                got = model(res, "derivative")
            except MalformedPoly as err:
                return fail("derivative", "malformed", str(err))
            diff = first_diff(got, expect)
            if diff:
                return fail("derivative", "value:%s%s" % (hows, ",multi" if len(dvs) > 1 else ""), diff)
            for d in dvs:
                ctx.label("designation:" + d["how"])
            if len(dvs) > 1:
                ctx.label("successive")
            if op == "laws":
                q, qm = build_checked(case["other"])
                v = names[dvs[0]["i"]]
                vi = vidx[dvs[0]["i"]]
                w = names[dvs[-1]["i"]]
                try:
                    # a name that an intermediate no longer carries (retain_names=False)
                    # is not a valid designation for that intermediate: skip the law then
                    s1, s2 = p + 3 * q, p * q
                    laws = []
                    if v in s1.names and v in q.names:
                        laws.append(("linearity", numpoly.derivative(s1, v),
                                     numpoly.derivative(p, v) + 3 * numpoly.derivative(q, v)))
                    if v in s2.names and v in q.names:
                        laws.append(("product-rule", numpoly.derivative(s2, v),
                                     numpoly.derivative(p, v) * q + p * numpoly.derivative(q, v)))
                    laws.append(("mixed-partials", numpoly.derivative(p, v, w),
                                 numpoly.derivative(p, w, v)))
                    for lname, lhs, rhs in laws:
                        diff = first_diff(model(lhs, lname), model(rhs, lname))
                        if diff:
                            return fail("law:" + lname, "value", diff)
                except MalformedPoly as err:
                    return fail("law", "malformed", str(err))
                except Exception as err:
                    return fail("law", "exception:" + type(err).__name__, repr(err))
                ctx.label("laws")
            # non-triviality w.r.t. the first variable
            col = dvs[0]["i"]
            terms = [t for t in case["poly"]["terms"] if any(c != 0 and c != [0, 0] for c in t[1])]
            ctx.nontrivial(any(t[0][col] >= 2 for t in terms) and any(t[0][col] == 0 for t in terms))
        elif op == "gradient":
            try:
                res = numpoly.gradient(p)
            except Exception as err:
                return fail("gradient", "exception:" + type(err).__name__, repr(err))
            D = len(names)
            exp_shape = (D,) + tuple(pm.shape)
            try:
                got = model(res, "gradient")
            except MalformedPoly as err:
                return fail("gradient", "malformed", str(err))
            if tuple(got.shape) != exp_shape:
                return fail("gradient", "shape", "shape %s expected (D,)+p.shape = %s" % (got.shape, exp_shape))
            for i in range(D):
                expect = arr_map(lambda e, v=vidx[i]: e.diff(v), pm)
                diff = first_diff(got[i], expect)
                if diff:
                    return fail("gradient", "value", "row %d (%s): %s" % (i, names[i], diff))
            ctx.label("gradient")
            ctx.nontrivial(D >= 2 and any(len(t[0]) and max(t[0]) >= 2 for t in case["poly"]["terms"]))
        else:
            try:
                res = numpoly.hessian(p)
            except Exception as err:
                return fail("hessian", "exception:" + type(err).__name__, repr(err))
            D = len(names)
            exp_shape = (D, D) + tuple(pm.shape)
            try:
                got = model(res, "hessian")
            except MalformedPoly as err:
                return fail("hessian", "malformed", str(err))
            if tuple(got.shape) != exp_shape:
                return fail("hessian", "shape", "shape %s expected (D,D)+p.shape = %s" % (got.shape, exp_shape))
            for i in range(D):
                for j in range(D):
                    expect = arr_map(lambda e, a=vidx[i], b=vidx[j]: e.diff(a).diff(b), pm)
                    diff = first_diff(got[i, j], expect)
                    if diff:
                        return fail("hessian", "value", "entry (%d,%d): %s" % (i, j, diff))
            ctx.label("hessian")
            ctx.nontrivial(D >= 2 and any(len(t[0]) and max(t[0]) >= 2 for t in case["poly"]["terms"]))
    if case["poly"].get("dtype") or case["poly"]["kind"] == "b":
        ctx.label("narrow-coefficient-dtype")
    for k, v in sorted(opts.items()):
        if v != numpoly.get_options(defaults=True)[k]:
            ctx.label("option:%s=%s" % (k, v))
    if not opts:
        ctx.label("default-options")
    return fails
