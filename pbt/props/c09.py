"""C09 Shape functions and indexing move whole polynomial elements like numpy."""
import numpy
from hypothesis import strategies as st

from .. import gen
from ..catalogue import RECIPES, PolyOperands, P, NP, resolve, operand_descs, invoke
from ..conv import to_model, MalformedPoly, var_index, KIND_DTYPE
from ..core import Failure
from ..model import MP, first_diff

ID = "C09"
BUDGET = {"quick": 1200, "thorough": 12000}
TECHNIQUE = ("Hypothesis-generated (polynomial array, valid shape/axis/index/section arguments) per function vs the "
             "same numpy function applied to an object array of exact model polynomials")
LEVEL_TEXT = ("For each of ~35 shape/join/split/selection/creation/indexing operations, generated valid arguments "
              "(including strided .T views as inputs, size-1 axes, single-row matrices, operands with differing names "
              "and term sets) are run through numpoly and through numpy on an object array of model elements; shapes "
              "and every element must agree, names and coefficient dtype must be preserved.")
RULE = (
    "per function (reshape transpose moveaxis expand_dims atleast_1d/2d/3d repeat tile concatenate stack hstack "
    "vstack dstack split array_split hsplit vsplit dsplit diag diagonal broadcast_arrays where choose full full_like; "
    "basic/advanced/mixed indexing, iteration, ravel/flatten/.T) a strategy draws arguments valid for numpy on "
    "0-3-d polynomial arrays (1-3 names, 0-4 terms, int/float; joins with differing name and term sets; 25% of "
    "inputs are strided .T views). Oracle: the same numpy call on the object array of model elements: equal shape "
    "and model-equal elements; names == input names (joins: numeric-order union); dtype == input dtype (joins: "
    "numpy.result_type). non-trivial = the input has >= 2 distinct elements and the result differs from the input "
    "in shape or element order."
)
LEVEL_TEXT += (" reshape is generated with order C/F and, for strided (F-contiguous) operands, order='A' whose expected order is read off the live operand; integer / numpy-integer shapes of full and full_like; broadcastable (unequal) choices of choose; cyclic axis permutations.")
ASSUMPTIONS = [
    "numpy's own behaviour on object arrays is the specification of where elements go",
    "a case on which numpy itself rejects the arguments for the object array is discarded and counted",
]

SHAPE_FUNCS = ["reshape", "transpose", "moveaxis", "expand_dims", "atleast_1d", "atleast_2d", "atleast_3d",
               "repeat", "tile", "concatenate", "stack", "hstack", "vstack", "dstack", "split", "array_split",
               "hsplit", "vsplit", "dsplit", "diag", "diagonal", "broadcast_arrays", "where", "choose",
               "full", "full_like"]
EXTRA = ["getitem", "getitem", "getitem", "iter", "ravel", "flatten", "T"]
OG = PolyOperands(max_terms=4, max_exp=2, kinds="if", max_names=3)


@st.composite
def index_st(draw, shape):
    """A valid numpy index for `shape` (JSON-able)."""
    nd = len(shape)
    comps = []
    adv_used = 0
    mode = draw(st.sampled_from(["basic", "basic", "advanced", "mask", "mixed", "separated"]))
    if mode == "separated" and nd >= 3 and all(shape):
        # two advanced entries (int or int array) separated by a slice / newaxis / ellipsis:
        # numpy then moves the advanced dimension to the front
        def adv(n):
            if draw(st.booleans()):
                return draw(st.integers(-n, n - 1))
            k = draw(st.integers(1, 3))
            return NP(draw(st.lists(st.integers(-n, n - 1), min_size=k, max_size=k)))
        first, last = adv(shape[0]), adv(shape[-1])
        if not isinstance(first, dict) and not isinstance(last, dict):
            last = NP([draw(st.integers(-shape[-1], shape[-1] - 1))])
        mid = draw(st.sampled_from([[{"slice": [None, None, None]}] * (nd - 2), ["ellipsis"],
                                    [{"slice": [None, None, -1]}] + [{"slice": [None, None, None]}] * (nd - 3)]))
        return [first] + list(mid) + [last]
    if mode == "mask" and nd >= 1:
        k = draw(st.integers(1, nd))
        mshape = tuple(shape[:k])
        size = gen.size_of(mshape)
        return [NP(draw(st.lists(st.booleans(), min_size=size, max_size=size)), dtype="bool", shape=mshape)]
    axes = 0
    ell = False
    while axes < nd:
        choice = draw(st.sampled_from(["int", "slice", "slice", "newaxis", "ellipsis", "array", "stop"]))
        if choice == "stop":
            break
        if choice == "newaxis":
            if len(comps) < 5:
                comps.append("newaxis")
            continue
        if choice == "ellipsis":
            if ell:
                continue
            ell = True
            comps.append("ellipsis")
            rest = draw(st.integers(0, nd - axes))
            axes = nd - rest
            continue
        n = shape[axes]
        if choice == "int" and n > 0:
            comps.append(draw(st.integers(-n, n - 1)))
        elif choice == "array" and mode in ("advanced", "mixed") and n > 0 and adv_used < 2:
            k = draw(st.integers(1, 3))
            comps.append(NP(draw(st.lists(st.integers(-n, n - 1), min_size=k, max_size=k))))
            adv_used += 1
        else:
            a = draw(st.sampled_from([None, 0, 1, -1, 2]))
            b = draw(st.sampled_from([None, n, -1, 1, 2]))
            c = draw(st.sampled_from([None, 1, 2, -1, -2]))
            comps.append({"slice": [a, b, c]})
        axes += 1
    return comps


def build_index(comps):
    out = []
    for c in comps:
        if c == "newaxis":
            out.append(None)
        elif c == "ellipsis":
            out.append(Ellipsis)
        elif isinstance(c, dict) and "slice" in c:
            out.append(slice(*c["slice"]))
        elif isinstance(c, dict):
            out.append(resolve(c, "live"))
        else:
            out.append(c)
    if len(out) == 1:
        return out[0] if not isinstance(out[0], list) else tuple(out)
    return tuple(out)


@st.composite
def case_st(draw, only=None):
    fn = only or draw(st.sampled_from(SHAPE_FUNCS + EXTRA))
    if fn in RECIPES:
        call = RECIPES[fn].gen(draw, OG)
        call["fn"] = fn
    else:
        a = OG.array(draw, min_ndim=(draw(st.sampled_from([0, 1, 2, 3, 3])) if fn == "getitem" else
                                     (0 if fn in ("ravel", "flatten", "T") else 1)))
        call = {"fn": fn, "args": [P(a)], "kw": {}}
        if fn == "getitem":
            call["index"] = draw(index_st(tuple(a["shape"])))
    views = []
    for d in operand_descs(call):
        views.append("T" if len(d["shape"]) >= 2 and draw(st.integers(0, 3)) == 0 else "")
    if fn == "reshape" and len(call["args"][0]["$p"]["shape"]) >= 2 and draw(st.integers(0, 2)) == 0:
        # order="A" follows the memory layout of the operand: Fortran order for the transposed view
        call["kw"]["order"] = "A"
        views = ["T" if draw(st.integers(0, 2)) else ""] + views[1:]
    call["views"] = views
    # numpy.full/zeros/ones dispatch only through like=, never on fill_value/shape
    call["spelling"] = "numpoly" if fn in ("full", "zeros", "ones") else draw(
        st.sampled_from(["numpoly", "numpoly", "numpy"]))
    return call


def strategy(tier):
    return case_st()


def STRATA(tier):
    return SHAPE_FUNCS + ["getitem", "getitem-2", "getitem-3", "iter", "ravel", "flatten", "T", "reshape-2", "reshape-3", "where-2"]


def strategy_for(tier, name):
    return case_st(only=name.split("-")[0])


def apply_views(call):
    """Transpose the descriptions marked as views: the live operand becomes desc_built.T."""
    descs = operand_descs(call)
    return {id(d): v for d, v in zip(descs, call.get("views", []))}


def check_case(case, ctx):
    import numpoly

    fn = case["fn"]
    fails = []
    descs = operand_descs(case)
    views = case.get("views") or [""] * len(descs)
    # build operands; a "T" view is built from the transposed description and then .T'ed back,
    # so that the live operand is a strided view that denotes exactly the described array
    live_of, model_of = {}, {}
    from ..conv import build_checked, desc_model
    for d, v in zip(descs, views):
        if v == "T":
            td = dict(d)
            shape = tuple(d["shape"])
            perm_shape = shape[::-1]
            td["shape"] = list(perm_shape)
            size = gen.size_of(shape)
            idx = numpy.arange(size).reshape(shape).T.ravel()
            td["terms"] = [[t[0], [t[1][i] for i in idx]] for t in d["terms"]]
            base, _ = build_checked(td)
            live = base.T
            ctx.label("input:strided-view")
        else:
            live, _ = build_checked(d)
        live_of[id(d)] = live
        model_of[id(d)] = desc_model(d)

    def res(x, table):
        if isinstance(x, dict):
            if "$p" in x:
                return table[id(x["$p"])]
            if "$pl" in x:
                return [table[id(d)] for d in x["$pl"]]
            return resolve(x, "live")
        if isinstance(x, list):
            return [res(i, table) for i in x]
        return x

    args = [res(a, live_of) for a in case["args"]]
    kw = {k: res(v, live_of) for k, v in case["kw"].items()}
    margs = [res(a, model_of) for a in case["args"]]
    mkw = {k: res(v, model_of) for k, v in case["kw"].items()}

    def fail(kind, msg, cls=""):
        fails.append(Failure("%s:%s%s" % (fn, kind, (":" + cls) if cls else ""), msg))
        return fails

    cls = "strided-input" if "T" in views else ""
    if mkw.get("order") == "A":
        # what "A" means is decided by the live operand's layout (the model array is always C-ordered)
        mkw["order"] = "F" if (args[0].flags.f_contiguous and not args[0].flags.c_contiguous) else "C"
        ctx.label("reshape:order=A->" + mkw["order"])
    # ---- expected from numpy on the object array
    try:
        if fn in RECIPES:
            expected = getattr(numpy, RECIPES[fn].np_name)(*margs, **mkw)
        elif fn == "getitem":
            index = build_index(case["index"])
            expected = margs[0][index]
        elif fn == "iter":
            expected = list(margs[0])
        elif fn == "ravel":
            expected = margs[0].ravel()
        elif fn == "flatten":
            expected = margs[0].flatten()
        else:
            expected = margs[0].T
    except Exception as err:
        ctx.discard_case("numpy-rejects:" + fn)
        return []
    # ---- numpoly
    try:
        if fn in RECIPES:
            got = invoke(RECIPES[fn], args, kw, case.get("spelling", "numpoly"))
        elif fn == "getitem":
            got = args[0][index]
        elif fn == "iter":
            got = list(args[0])
        elif fn == "ravel":
            got = args[0].ravel()
        elif fn == "flatten":
            got = args[0].flatten()
        else:
            got = args[0].T
    except Exception as err:
        if fn == "repeat" and "axis" not in case["kw"]:
            return fail("shape", repr(err), "axis-omitted")  # one root cause, whatever the symptom
        return fail("exception:" + type(err).__name__, repr(err), cls)

    if fn == "where" and isinstance(case["args"][0], dict) and "$p" in case["args"][0]:
        # a polynomial condition only says where: its names and dtype are not part of the result
        descs = [d for d in descs if d is not case["args"][0]["$p"]]
    in_names = []
    for d in descs:
        for n in d["names"]:
            if n not in in_names:
                in_names.append(n)
    join = fn in ("concatenate", "stack", "hstack", "vstack", "dstack", "where", "choose", "broadcast_arrays",
                  "full_like")
    exp_dtype = numpy.result_type(*[KIND_DTYPE[d["kind"]] for d in descs]) if descs else None

    def compare(g, e, what):
        if not isinstance(g, numpoly.ndpoly):
            return fail("type", "%s: result is %r" % (what, type(g)))
        e = numpy.asarray(e, dtype=object)
        if e.ndim == 0 and not isinstance(e.item(), MP):
            e = numpy.array(MP.lift(e.item()), dtype=object)
        try:
            gm = to_model(g)
        except MalformedPoly as err:
            return fail("malformed", "%s: %s" % (what, err))
        sub = cls
        if fn == "repeat" and "axis" not in case["kw"]:
            sub = "axis-omitted"
        if tuple(gm.shape) != tuple(e.shape):
            return fail("shape", "%s: shape %s, numpy gives %s" % (what, gm.shape, e.shape), sub)
        diff = first_diff(gm, e)
        if diff:
            return fail("shape" if sub == "axis-omitted" else "value", "%s: %s" % (what, diff), sub)
        # names / dtype preserved (full/full_like take both from the fill value / prototype:
        # not asserted here; broadcast_arrays pieces are checked by the caller)
        if fn in ("full", "full_like", "broadcast_arrays"):
            return None
        if len(descs) == 1 or not join:
            own = descs[0]["names"] if descs else []
            # the input's own order, or (for functions that go through alignment) numeric order
            if list(g.names) != list(own) and list(g.names) != sorted(own, key=var_index):
                return fail("names", "%s: names %s, input names %s" % (what, g.names, own))
            want_dt = numpy.dtype(KIND_DTYPE[descs[0]["kind"]])
        else:
            want = sorted(set(in_names), key=var_index)
            tuples = {tuple(d["names"]) for d in descs}
            if len(tuples) == 1 and list(g.names) == list(next(iter(tuples))):
                pass  # operands already share one (possibly unsorted) name tuple
            elif list(g.names) != want:
                return fail("names", "%s: names %s, expected union %s" % (what, g.names, want))
            want_dt = exp_dtype
        if g.dtype != want_dt:
            return fail("dtype", "%s: dtype %s expected %s" % (what, g.dtype, want_dt))
        return None

    if isinstance(expected, (list, tuple)):
        if not isinstance(got, (list, tuple)) or len(got) != len(expected):
            return fail("arity", "returned %r of length %s, numpy returns %d pieces"
                        % (type(got), len(got) if hasattr(got, "__len__") else "?", len(expected)))
        for i, (g, e) in enumerate(zip(got, expected)):
            if fn == "broadcast_arrays":
                d = descs[i]
                if isinstance(g, numpoly.ndpoly) and (list(g.names) != list(d["names"])
                                                      or g.dtype != numpy.dtype(KIND_DTYPE[d["kind"]])):
                    return fail("names", "piece %d: names %s dtype %s" % (i, g.names, g.dtype))
            if compare(g, e, "piece %d" % i):
                return fails
    else:
        if compare(got, expected, "result"):
            return fails

    ctx.label("fn:" + fn)
    if case.get("spelling") == "numpy":
        ctx.label("spelling:numpy")
    first = model_of[id(descs[0])] if descs else None
    nt = False
    if first is not None and first.size >= 2:
        distinct = len({repr(sorted(e.d.items(), key=repr)) for e in first.flat}) >= 2
        exp_arr = expected if not isinstance(expected, (list, tuple)) else (expected[0] if expected else first)
        exp_arr = numpy.asarray(exp_arr, dtype=object)
        changed = exp_arr.shape != first.shape or any(
            not (MP.lift(a) == MP.lift(b)) for a, b in zip(exp_arr.flat, first.flat))
        nt = distinct and (changed or isinstance(expected, (list, tuple)))
    ctx.nontrivial(nt)
    return fails
