"""C11 On constant polynomials every mirrored function behaves exactly like numpy."""
import numpy
from hypothesis import strategies as st

from .. import gen
from ..catalogue import RECIPES, ConstOperands, PolyOperands, P, resolve, operand_descs, invoke
from ..core import Failure

ID = "C11"
BUDGET = {"quick": 3000, "thorough": 16000}
TECHNIQUE = ("Hypothesis-generated numeric arrays and per-function arguments: numpoly on constant polynomials vs "
             "numpy itself on the raw arrays (differential), plus FeatureNotSupported for non-constant divisors")
LEVEL_TEXT = ("Every catalogue entry that mirrors a numpy function is called on constant polynomials built from "
              "generated numeric arrays (0-3-d, repeated values, negatives, zeros, ints and dyadic floats) with the "
              "function's own arguments (axis, keepdims, decimals, rtol/atol, sections ...) and compared with numpy on "
              "the raw arrays: values and shape, and type/dtype for boolean and index results; the numeric division "
              "functions must raise FeatureNotSupported for a non-constant divisor.")
RULE = (
    "for each mirrored function a strategy draws numeric arrays (values from small pools with repeats, zeros and "
    "negatives; int64 and dyadic float64) and valid arguments; numpoly.f / numpy.f(constant polynomials) is compared "
    "with numpy.f(raw arrays): polynomial results through tonumpy() (exact, 1e-12 relative for mean/true_divide/det), "
    "boolean/index results must be booleans/integers (dtype kind; a 0-d result may be a scalar or a 0-d array), tuples/lists piecewise; argmax/argmin must be "
    "numpy's first-occurrence index. non-trivial = the array has a repeated value, mixed signs, or >= 2 elements along "
    "a reduced axis."
)
LEVEL_TEXT += (" Also: every call repeated with all plain integer arguments as numpy integers; where= for any/all/sum/prod, keepdims for argmax/argmin/count_nonzero, initial= for amax/amin/sum/prod, inner beyond vectors, negative and fractional powers, coarse isclose tolerances; and the numeric division functions enumerated over all 8x8 dtype pairs x 3 divisor forms with edge values, integers compared exactly beyond 2**53.")
ASSUMPTIONS = [
    "numpy's result on the raw arrays is the specification",
    "a case numpy itself rejects is discarded and counted",
    "result coefficient dtype is compared by kind only (C12 owns exact dtypes)",
]

SKIP = {"array_repr", "array_str"}
OG = ConstOperands()
FLOATY = {"mean", "true_divide", "det", "isclose", "allclose", "power"}


EDGE = {
    "bool": [True, False],
    "int8": [-128, 127, 5, -7, 0],
    "uint8": [255, 7, 0, 100],
    "int32": [2 ** 31 - 1, -2 ** 31, 1000003, -17, 0],
    "int64": [2 ** 62 + 1, -2 ** 62 - 3, 7, -5, 0, 3 ** 35],
    "uint64": [2 ** 63 + 1, 2 ** 64 - 1, 12345678901234567, 3, 0],
    "float64": [1.5, -2.75, 0.0, 1e300, 3.0],
    "complex128": [[1, 2], [0, -0.5], [3, 0], [0, 0]],
}


def names_for(tier):
    return sorted(n for n in RECIPES if n not in SKIP)


@st.composite
def case_st(draw, only=None):
    if only == "non-constant-divisor" or (only is None and draw(st.integers(0, 14)) == 0):
        # non-constant divisor must raise FeatureNotSupported
        fn = draw(st.sampled_from(["true_divide", "floor_divide", "remainder", "divmod"]))
        pog = PolyOperands(max_terms=3, max_exp=2, kinds="if", max_names=2)
        shape = draw(gen.shape_st(2))
        num = OG.array(draw, shape=shape)
        dshape = gen.broadcast_member(draw, shape)
        dsize = gen.size_of(dshape)
        den = {"names": ["q0"], "shape": list(dshape), "kind": "i", "retain": False,
               "terms": [[[draw(st.integers(1, 2))], draw(st.lists(st.sampled_from([1, -1, 2, 3]), min_size=dsize,
                                                                    max_size=dsize))]]}
        if draw(st.booleans()):
            den["terms"].append([[0], draw(st.lists(st.integers(-2, 2), min_size=dsize, max_size=dsize))])
        left = draw(st.sampled_from(["const", "poly"]))
        if left == "poly":
            num = pog.array(draw, shape=shape, names=["q0"])
        return {"fn": fn, "args": [P(num), P(den)], "kw": {}, "expect": "FeatureNotSupported",
                "spelling": draw(st.sampled_from(["numpoly", "numpy"]))}
    if only == "division-dtypes" or (only is None and draw(st.integers(0, 14)) == 0):
        # the numeric division functions between every pair of coefficient dtypes, values at the dtypes' edges
        fn = draw(st.sampled_from(["true_divide", "floor_divide", "remainder", "divmod"]))
        d1 = draw(st.sampled_from(sorted(EDGE)))
        d2 = draw(st.sampled_from(sorted(EDGE)))
        n = draw(st.sampled_from([1, 3, 4]))
        shape2 = draw(st.sampled_from([[n], [], [n]]))

        def arr(d, shape, divisor):
            size = gen.size_of(tuple(shape))
            pool = [v for v in EDGE[d] if not divisor or v not in (0, False, [0, 0])]
            vals = draw(st.lists(st.sampled_from(pool), min_size=size, max_size=size))
            out = {"dtype": d, "shape": list(shape)}
            if d.startswith("complex"):
                out["v"], out["vi"] = [v[0] for v in vals], [v[1] for v in vals]
            else:
                out["v"] = vals
            return {"$np": out}

        return {"fn": fn, "args": [arr(d1, [n], False), arr(d2, shape2, True)], "kw": {}, "dtype_pair": [d1, d2],
                "divisor": draw(st.sampled_from(["array", "poly", "scalar"])),
                "spelling": draw(st.sampled_from(["numpoly", "numpy"]))}
    fn = only or draw(st.sampled_from(names_for("quick")))
    call = RECIPES[fn].gen(draw, OG)
    call["fn"] = fn
    call["spelling"] = "numpoly" if fn in ("full", "zeros", "ones") else draw(st.sampled_from(["numpoly", "numpy"]))
    return call


def strategy(tier):
    return case_st()


def _np(d, vals, shape):
    out = {"dtype": d, "shape": list(shape)}
    if d.startswith("complex"):
        out["v"], out["vi"] = [v[0] for v in vals], [v[1] for v in vals]
    else:
        out["v"] = list(vals)
    return {"$np": out}


def enumerate_cases(tier):
    """Every (division function, dividend dtype, divisor dtype, divisor form) with the dtypes' edge values."""
    for fn in ("true_divide", "floor_divide", "remainder", "divmod"):
        for d1 in sorted(EDGE):
            a = EDGE[d1]
            for d2 in sorted(EDGE):
                nz = [v for v in EDGE[d2] if v not in (0, False, [0, 0])]
                b = [nz[i % len(nz)] for i in range(len(a))]
                for form in ("array", "poly", "scalar"):
                    scalars = nz if tier != "quick" else nz[:1]
                    for bs in ([b] if form != "scalar" else [[v] for v in scalars]):
                        yield {"fn": fn, "args": [_np(d1, a, [len(a)]), _np(d2, bs, [len(bs)] if form != "scalar" else [])],
                               "kw": {}, "dtype_pair": [d1, d2], "divisor": form, "spelling": "numpoly"}


def STRATA(tier):
    return names_for(tier) + ["non-constant-divisor", "non-constant-divisor"] + ["division-dtypes"] * 4


def strategy_for(tier, name):
    return case_st(only=name)


def as_numeric(x, numpoly):
    if isinstance(x, numpoly.ndpoly):
        return x.tonumpy()
    return x


def same(got, exp, fn, numpoly, path="result"):
    """None if equal, else (kind, message)."""
    if isinstance(exp, (tuple, list)):
        if not isinstance(got, (tuple, list)) or len(got) != len(exp):
            return "arity", "%s: %r vs numpy's %d pieces" % (path, type(got), len(exp))
        for i, (g, e) in enumerate(zip(got, exp)):
            r = same(g, e, fn, numpoly, "%s[%d]" % (path, i))
            if r:
                return r
        return None
    if isinstance(exp, (numpy.dtype, type)):
        try:
            return None if numpy.dtype(got) == numpy.dtype(exp) else ("dtype", "%s: %s vs %s" % (path, got, exp))
        except TypeError:
            return "dtype", "%s: %r vs %r" % (path, got, exp)
    rec = RECIPES[fn]
    exp_arr = numpy.asarray(exp)
    if isinstance(got, numpoly.ndpoly):
        if rec.result in ("bool", "index"):
            return "type", "%s: returned a polynomial where numpy returns %s" % (path, exp_arr.dtype)
        try:
            got_arr = got.tonumpy()
        except Exception as err:
            return "not-constant", "%s: tonumpy failed: %r" % (path, err)
    else:
        got_arr = numpy.asarray(got)
        if rec.result in ("bool", "index"):
            # type and dtype matter for boolean / index results
            if exp_arr.dtype.kind != got_arr.dtype.kind:
                return "dtype", "%s: dtype %s vs numpy %s" % (path, got_arr.dtype, exp_arr.dtype)
    if got_arr.dtype.names or got_arr.dtype == object:
        return "type", "%s: raw storage returned (dtype %s)" % (path, got_arr.dtype)
    if tuple(got_arr.shape) != tuple(exp_arr.shape):
        return "shape", "%s: shape %s vs numpy %s" % (path, got_arr.shape, exp_arr.shape)
    if fn in FLOATY:
        with numpy.errstate(all="ignore"):
            ok = numpy.allclose(got_arr, exp_arr, rtol=1e-12, atol=1e-12, equal_nan=True)
    elif exp_arr.dtype.kind in "iu" and got_arr.dtype.kind in "iuf":
        # exact, also beyond 2**53 (numpy would compare a float result with the integers in floating point)
        ok = got_arr.ravel().tolist() == exp_arr.ravel().tolist()
    else:
        ok = numpy.array_equal(got_arr, exp_arr, equal_nan=exp_arr.dtype.kind in "fc" and got_arr.dtype.kind in "fc")
    if not ok:
        return "value", "%s: %s vs numpy %s" % (path, numpy.array2string(got_arr, threshold=20),
                                                numpy.array2string(exp_arr, threshold=20))
    return None


def check_case(case, ctx):
    import numpoly

    fn = case["fn"]
    rec = RECIPES[fn]
    fails = []
    if case.get("expect") == "FeatureNotSupported":
        args = resolve(case["args"], "live")
        try:
            res = invoke(rec, args, {}, case["spelling"])
        except numpoly.FeatureNotSupported:
            ctx.label("non-constant-divisor:" + fn)
            ctx.nontrivial(True)
            return []
        except Exception as err:
            return [Failure("%s:non-constant-divisor:wrong-exception:%s" % (fn, type(err).__name__), repr(err))]
        return [Failure("%s:non-constant-divisor:no-error" % fn, "returned %r" % (res,))]

    args = resolve(case["args"], "live")
    kw = resolve(case["kw"], "live")
    rargs = resolve(case["args"], "raw")
    rkw = resolve(case["kw"], "raw")
    if case.get("dtype_pair"):
        # (the operands are given as plain arrays: the dividend becomes a constant polynomial, the divisor
        # a constant polynomial, an array, or - when it has one element - a numpy scalar of its dtype)
        args = [numpoly.polynomial(rargs[0]), rargs[1]]
        if case["divisor"] == "poly":
            args[1] = numpoly.polynomial(rargs[1])
        elif case["divisor"] == "scalar" and rargs[1].ndim == 0:
            args[1] = rargs[1][()]
            rargs = [rargs[0], rargs[1][()]]
        if args[0].dtype != rargs[0].dtype:
            ctx.discard_case("constant-polynomial-changes-dtype")
            return []
    if fn in ("apply_along_axis", "apply_over_axes"):
        # the callable is spelled per module: numpy's on the raw arrays, numpoly's on the polynomials
        from ..catalogue import _callable
        name = case["args"][0]["$fn"]
        rargs = [_callable(name, "raw")] + list(rargs[1:])
    npf = numpy.linalg.det if fn == "det" else getattr(numpy, rec.np_name)
    try:
        with numpy.errstate(all="ignore"):
            expected = npf(*rargs, **rkw)
    except Exception:
        ctx.discard_case("numpy-rejects:" + fn)
        return []

    def cls():
        if case.get("dtype_pair"):
            k1, k2 = (numpy.dtype(d).kind for d in case["dtype_pair"])
            big = any(abs(v) > 2 ** 53 for a in rargs[:2] for v in numpy.atleast_1d(a).ravel().tolist()
                      if isinstance(v, int) and not isinstance(v, bool))
            return "dtypes:%s/%s%s" % (k1, k2, ",>2**53" if big else "")
        if fn in ("amax", "amin"):
            return "axis" if kw.get("axis") is not None else "no-axis"
        if fn in ("argmax", "argmin"):
            arr = numpy.asarray(rargs[0])
            flip = numpy.flip(arr)
            alt = getattr(numpy, fn)(flip, **rkw)
            # ties at the extreme: first and last occurrence differ
            first = numpy.asarray(expected)
            ax = rkw.get("axis")
            n = arr.size if ax is None else arr.shape[ax]
            last = n - 1 - numpy.flip(numpy.asarray(alt)) if ax is not None else n - 1 - numpy.asarray(alt)
            return "ties" if not numpy.array_equal(first, last) else ("axis" if ax is not None else "plain")
        if fn == "repeat" and "axis" not in kw:
            return "axis-omitted"
        if fn == "matmul" and (numpy.ndim(rargs[0]) == 1 or numpy.ndim(rargs[1]) == 1):
            return "vector-operand"
        if numpy.size(expected) == 0 if not isinstance(expected, (list, tuple)) else False:
            return "empty-result"
        if fn == "ediff1d" and numpy.size(rargs[0]) <= 1:
            return "size<=1"
        return ""

    try:
        with numpy.errstate(all="ignore"):
            got = invoke(rec, args, kw, case.get("spelling", "numpoly"))
    except Exception as err:
        if cls() == "axis-omitted":  # one root cause, whatever the symptom
            return [Failure("repeat:shape:axis-omitted", repr(err))]
        return [Failure("%s:exception:%s:%s" % (fn, type(err).__name__, cls()), repr(err))]
    r = same(got, expected, fn, numpoly)
    if r:
        if cls() == "axis-omitted":
            return [Failure("repeat:shape:axis-omitted", r[1])]
        return [Failure("%s:%s:%s" % (fn, r[0], cls()), r[1])]
    # the same call with every plain integer argument (axis, shape, repeats, sections, offsets, decimals ...)
    # handed over as a numpy integer, as numpy.argmax, arange()[k] or a.shape arithmetic produce them
    def np_ints(x):
        if isinstance(x, bool) or isinstance(x, numpoly.ndpoly) or isinstance(x, numpy.ndarray):
            return x, 0
        if isinstance(x, int):
            return numpy.int64(x), 1
        if isinstance(x, (list, tuple)):
            items = [np_ints(i) for i in x]
            return type(x)(i for i, _ in items), sum(n for _, n in items)
        if isinstance(x, dict):
            items = {k: np_ints(v) for k, v in x.items()}
            return {k: v for k, (v, _) in items.items()}, sum(n for _, n in items.values())
        return x, 0

    if not case.get("dtype_pair") and not cls():
        alt_args, n1 = np_ints(list(args))
        alt_kw, n2 = np_ints(dict(kw))
        if n1 + n2:
            try:
                with numpy.errstate(all="ignore"):
                    npf(*np_ints(list(rargs))[0], **np_ints(dict(rkw))[0])  # numpy itself must accept the form
                numpy_accepts = True
            except Exception:
                numpy_accepts = False
            if numpy_accepts:
                try:
                    with numpy.errstate(all="ignore"):
                        got2 = invoke(rec, alt_args, alt_kw, case.get("spelling", "numpoly"))
                except Exception as err:
                    return [Failure("%s:numpy-integer-arguments:exception:%s" % (fn, type(err).__name__), repr(err))]
                r = same(got2, expected, fn, numpoly)
                if r:
                    return [Failure("%s:numpy-integer-arguments:%s" % (fn, r[0]), r[1])]
                ctx.label("numpy-integer-arguments")
    ctx.label("fn:" + fn)
    if case.get("dtype_pair"):
        ctx.label("division-dtypes:%s" % ("mixed-kinds" if numpy.dtype(case["dtype_pair"][0]).kind != numpy.dtype(case["dtype_pair"][1]).kind else "same-kind"))
        ctx.nontrivial(case["dtype_pair"][0] != case["dtype_pair"][1])
        return fails
    arr = numpy.asarray(rargs[0]) if not isinstance(rargs[0], (list, tuple)) or not rargs[0] else numpy.asarray(rargs[0][0])
    nt = False
    if arr.dtype.kind in "if" and arr.size >= 2:
        vals = arr.ravel().tolist()
        nt = len(set(vals)) < len(vals) or (min(vals) < 0 < max(vals))
    ctx.nontrivial(nt or ("axis" in kw and kw["axis"] is not None))
    return fails
