"""C02 Evaluation and substitution compute the polynomial's value."""
from fractions import Fraction

import numpy
from hypothesis import strategies as st

from .. import gen
from ..conv import build_checked, build_poly, desc_model, to_model, MalformedPoly, var_index
from ..core import Failure
from ..model import MP, GQ, cval, simplify, mp_close

ID = "C02"
BUDGET = {"quick": 900, "thorough": 5000}
TECHNIQUE = 'Hypothesis-generated (polynomial, argument assignment) pairs vs exact model evaluation/substitution; staged-evaluation and spelling metamorphic relations'
LEVEL_TEXT = 'Full, partial, positional/keyword/None assignments with Python numbers, numpy scalars of every width, broadcasting arrays and polynomial arguments are evaluated in the exact model and compared (shape rule, type rule, values); error cases must raise TypeError.'
FUZZ_RUNS = {"thorough": 3000}  # atheris/libFuzzer campaign over the same strategy and oracle
RULE = (
    "polynomial arrays (0-d..3-d, 1-3 names, <= 5 terms, exponents <= 3, int/float/complex) x argument "
    "assignments: per name omitted / positional / keyword / None placeholder; values are Python int "
    "(negative, sometimes > 2**16), bool, float, complex, numpy scalars of every integer/float/complex "
    "width, lists and ndarrays of shapes () .. (2,1,3) broadcasting among themselves, and polynomial "
    "arguments (constants, other indeterminates, swaps, small polynomials); 10% error cases (unknown "
    "keyword, name given positionally and by keyword). Oracle: exact model evaluation / substitution per "
    "element and broadcast index, result shape poly.shape + broadcast(arg shapes), full numeric "
    "evaluation is not an ndpoly, numpoly.call == __call__, staged evaluation == evaluation at once, "
    "TypeError for the error cases. non-trivial = a supplied variable occurs with exponent >= 2 in a term "
    "with non-zero coefficient and its value is not 0 or 1."
)
LEVEL_TEXT += (" Integer carriers of large values with inexact coefficients (result is a float and must not wrap in the integers), and scalar integer values whose square/cube leaves 32 bits carried by every numpy integer type that holds them; with integer coefficients the float comes in through another argument, given as a Python float, numpy scalar, list, array, constant polynomial or polynomial with float coefficients.")
ASSUMPTIONS = [
    "integer carriers of any width and Python ints keep the exact result below 2**62 (else the case is discarded and counted); float16/float32 carriers get small dyadic values whose powers are exact in that width",
    "a None placeholder combined with a keyword for the same name is not generated (statement leaves it open)",
    "a partial evaluation that happens to be constant may be an ndarray or a polynomial",
    "float comparison tolerance 1e-9 * max(1, magnitude)",
]

ARG_SHAPES = [(), (), (), (2,), (3,), (1,), (1, 3), (2, 1), (2, 3), (2, 1, 3)]
NP_INT = ["int8", "int16", "int32", "int64", "uint8", "uint16", "uint32", "uint64"]
NP_FLOAT = ["float16", "float32", "float64"]
NP_COMPLEX = ["complex64", "complex128"]


@st.composite
def value_st(draw, target, other_names, allow_poly=True):
    t = draw(st.sampled_from(
        ["pyint", "pyint", "pyfloat", "pycomplex", "pybool", "np", "np", "array", "array", "list"]
        + (["poly", "poly"] if allow_poly else [])))
    if t == "pyint":
        v = draw(st.one_of(st.integers(-3, 3), st.integers(-9, 9),
                           st.sampled_from([70000, -65537, 2 ** 16 + 1, 100, -100])))
        return {"t": "pyint", "v": v}
    if t == "pybool":
        return {"t": "pybool", "v": draw(st.booleans())}
    if t == "pyfloat":
        return {"t": "pyfloat", "v": draw(st.integers(-12, 12)) / 4.0}
    if t == "pycomplex":
        return {"t": "pycomplex", "v": [draw(st.integers(-4, 4)) / 2.0, draw(st.integers(-4, 4)) / 2.0]}
    if t == "np":
        dt = draw(st.sampled_from(NP_INT + NP_FLOAT + NP_COMPLEX + ["bool"]))
        if dt == "bool":
            v = draw(st.integers(0, 1))
        elif dt.startswith("uint"):
            big = {"uint8": [200, 255], "uint16": [300, 65535], "uint32": [70000, 65536, 100000], "uint64": [70000]}[dt]
            v = draw(st.one_of(st.integers(0, 9), st.sampled_from([100, 17] + big)))
        elif dt.startswith("int"):
            big = {"int8": [127, -128], "int16": [300, -32768], "int32": [70000, -65537], "int64": [70000]}[dt]
            v = draw(st.one_of(st.integers(-9, 9), st.sampled_from([100, -100, 50] + big)))
        elif dt.startswith("float"):
            v = draw(st.integers(-8, 8)) / 4.0
        else:
            v = [draw(st.integers(-4, 4)) / 2.0, draw(st.integers(-4, 4)) / 2.0]
        return {"t": "np", "dtype": dt, "v": v}
    if t in ("array", "list"):
        shp = gen.broadcast_member(draw, target)
        size = gen.size_of(shp)
        kind = draw(st.sampled_from(["i", "i", "f"]))
        if kind == "i":
            dt = draw(st.sampled_from(["int64", "int64", "int32", "int8", "uint8", "int16"]))
            lo = 0 if dt.startswith("u") else -5
            vals = draw(st.lists(st.integers(lo, 5), min_size=size, max_size=size))
        else:
            dt = draw(st.sampled_from(["float64", "float64", "float32"]))
            vals = [k / 4.0 for k in draw(st.lists(st.integers(-12, 12), min_size=size, max_size=size))]
        return {"t": t, "dtype": dt, "shape": list(shp), "v": vals}
    # polynomial argument
    how = draw(st.sampled_from(["indet", "indet", "const", "small"]))
    if how == "indet":
        name = draw(st.sampled_from(other_names + ["q0", "q1", "q5"]))
        return {"t": "poly", "desc": {"names": [name], "shape": [], "kind": "i",
                                      "terms": [[[1], [1]]], "retain": False}}
    if how == "const":
        shp = gen.broadcast_member(draw, target)
        d = draw(gen.poly_desc(names=["q0"], shape=shp, kind="i", max_terms=1, max_exp=0, retain=False))
        return {"t": "poly", "desc": d}
    shp = gen.broadcast_member(draw, target)
    names = draw(gen.names_st(max_size=2, pool=["q0", "q1", "q2", "q5"]))
    d = draw(gen.poly_desc(names=names, shape=shp, kinds="if", max_terms=2, max_exp=2, retain=False))
    return {"t": "poly", "desc": d}


@st.composite
def large_carrier_case(draw):
    """Inexact coefficients, integer arguments whose powers leave the 64 bit integers: the value is a float."""
    names = draw(gen.names_st(max_size=2))
    kind = draw(st.sampled_from(["f", "f", "c", "i", "i"]))
    if kind == "i" and len(names) < 2:
        names = ["q0", "q1"]  # (integer coefficients: the float comes in through another argument)
    desc = draw(gen.poly_desc(names=names, kind=kind, max_terms=3, max_exp=3, max_ndim=1))
    # make sure one term has a high power of the first indeterminate
    size = gen.size_of(tuple(desc["shape"]))
    row = [draw(st.integers(5, 9))] + [0] * (len(names) - 1)
    if all(list(t[0]) != row for t in desc["terms"]):
        c = [[2, 0]] * size if desc["kind"] == "c" else [2] * size
        desc["terms"] = desc["terms"] + [[row, c]]
    spec = []
    for i, name in enumerate(names):
        big = draw(st.sampled_from([10 ** 4, -10 ** 4, 70000, 10 ** 5, -3 * 10 ** 5, 2 ** 20])) if i == 0 else draw(st.integers(-3, 3))
        if i == 1 and kind == "i":
            # the float comes in as a Python float, a numpy scalar, a list, an array, a constant polynomial or a
            # polynomial with float coefficients
            f = draw(st.sampled_from([0.5, -1.25, 2.0]))
            form = draw(st.sampled_from(["pyfloat", "np", "np", "list", "array", "const-poly", "poly"]))
            if form == "pyfloat":
                val = {"t": "pyfloat", "v": f}
            elif form == "np":
                # (numpy.float64 is a Python float as well; the other widths are not)
                val = {"t": "np", "dtype": draw(st.sampled_from(["float64", "float32", "longdouble", "longdouble"])), "v": f}
            elif form in ("list", "array"):
                n = draw(st.sampled_from([1, 2]))
                val = {"t": form, "dtype": "float64", "shape": [n], "v": [f, 0.5][:n]}
            else:
                # (float coefficients are stored as quarters)
                val = {"t": "poly", "desc": {"names": [name], "shape": [], "kind": "f", "retain": False,
                                             "terms": [[[0 if form == "const-poly" else 1], [int(f * 4)]]]}}
            spec.append({"how": "kw", "val": val})
            continue
        t = draw(st.sampled_from(["pyint", "np", "np", "array", "poly"] if (i == 0 and kind != "i" and len(names) == 1) else ["pyint", "np", "np", "array"]))
        if t == "poly":
            # the integer carried by a polynomial with integer coefficients (a constant, or a monomial in a new name)
            val = {"t": "poly", "desc": {"names": [draw(st.sampled_from(["q0", "q7"]))], "shape": [], "kind": "i", "retain": False,
                                         "terms": [[[draw(st.sampled_from([0, 1]))], [big]]]}}
        elif t == "pyint":
            val = {"t": "pyint", "v": big}
        elif t == "np":
            val = {"t": "np", "dtype": draw(st.sampled_from(["int64", "int32", "uint32"] if big >= 0 else ["int64", "int32"])), "v": big}
        else:
            val = {"t": "array", "dtype": "int64", "shape": [], "v": [big]}
        spec.append({"how": draw(st.sampled_from(["pos", "kw"])) if i == 0 else "kw", "val": val})
    if spec[0]["how"] == "kw" and len(spec) > 1:
        pass
    return {"poly": desc, "spec": spec, "err": None, "stage": 0}


@st.composite
def wide_carrier_case(draw):
    """Integer coefficients and a scalar integer argument whose square or cube leaves 32 bits but not 62: the
    carrier differential then tries every numpy integer type that holds the value (uint32, int32, int64, ...)."""
    names = draw(gen.names_st(max_size=2))
    desc = draw(gen.poly_desc(names=names, kind="i", max_terms=3, max_exp=2, max_ndim=1))
    size = gen.size_of(tuple(desc["shape"]))
    row = [draw(st.integers(2, 3))] + [0] * (len(names) - 1)
    if all(list(t[0]) != row for t in desc["terms"]):
        desc["terms"] = desc["terms"] + [[row, [draw(st.sampled_from([1, -1, 2]))] * size]]
    desc["terms"] = [t for t in desc["terms"] if t[0][0] <= 3]
    spec = [{"how": "kw", "val": {"t": "pyint", "v": draw(st.sampled_from([70000, 65537, 100000, 300000, 2 ** 16, 40000]))}}]
    for _ in names[1:]:
        spec.append({"how": "kw", "val": {"t": "pyint", "v": draw(st.integers(-2, 2))}})
    return {"poly": desc, "spec": spec, "err": None, "stage": 0}


@st.composite
def case_st(draw):
    pick = draw(st.integers(0, 11))
    if pick in (0, 2):
        return draw(large_carrier_case())
    if pick == 1:
        return draw(wide_carrier_case())
    names = draw(gen.names_st(max_size=3))
    desc = draw(gen.poly_desc(names=names, max_terms=5, max_exp=3, max_ndim=3))
    if draw(st.integers(0, 4)) == 0 and desc["terms"]:
        # an array whose non-constant coefficients cancel ACROSS the elements (sum to zero per term):
        # it is not constant, although every per-term total is zero
        shape = draw(st.sampled_from([(2,), (3,), (2, 2)]))
        size = gen.size_of(shape)
        desc["shape"] = list(shape)
        for t in desc["terms"]:
            c = draw(st.sampled_from([1, 2, -3, 4]))
            vals = [c, -c] + [0] * (size - 2)
            if desc["kind"] == "c":
                vals = [[v, 0] for v in vals]
            t[1] = draw(st.permutations(vals))
        desc["retain"] = False
    target = draw(st.sampled_from(ARG_SHAPES))
    D = len(names)
    npos = draw(st.integers(0, D))
    numeric_only = draw(st.integers(0, 2)) > 0
    spec = []
    for i, name in enumerate(names):
        if i < npos:
            how = draw(st.sampled_from(["pos", "pos", "pos", "none"]))
        else:
            how = draw(st.sampled_from(["kw", "kw", "omit"])) if not numeric_only else draw(
                st.sampled_from(["kw", "kw", "kw", "omit"]))
        val = None
        if how in ("pos", "kw"):
            val = draw(value_st(target, list(names), allow_poly=not numeric_only))
        spec.append({"how": how, "val": val})
    err = draw(st.sampled_from([None] * 9 + ["double", "unknown-kw", "double"]))
    if err == "double" and not any(s["how"] == "pos" for s in spec):
        err = "unknown-kw"
    stage = draw(st.integers(0, D - 1))
    return {"poly": desc, "spec": spec, "err": err, "stage": stage}


def strategy(tier):
    return case_st()


def build_value(v):
    """-> (live, model array of MP)"""
    t = v["t"]
    if t == "pyint":
        return v["v"], numpy.array(MP.const(v["v"]), dtype=object)
    if t == "pybool":
        return bool(v["v"]), numpy.array(MP.const(int(v["v"])), dtype=object)
    if t == "pyfloat":
        return float(v["v"]), numpy.array(MP.const(float(v["v"])), dtype=object)
    if t == "pycomplex":
        c = complex(*v["v"])
        return c, numpy.array(MP.const(c), dtype=object)
    if t == "np":
        dt = numpy.dtype(v["dtype"])
        val = complex(*v["v"]) if isinstance(v["v"], list) else v["v"]
        live = dt.type(val)
        return live, numpy.array(MP.const(val if dt.kind != "b" else int(bool(val))), dtype=object)
    if t in ("array", "list"):
        arr = numpy.array(v["v"], dtype=v["dtype"]).reshape(tuple(v["shape"]))
        m = numpy.empty(arr.shape, dtype=object)
        for idx in numpy.ndindex(*arr.shape):
            m[idx] = MP.const(arr[idx])
        return (arr.tolist() if t == "list" else arr), m
    p, m = build_checked(v["desc"])
    return p, m


def check_case(case, ctx):
    import numpoly

    p, pm = build_checked(case["poly"])
    names = list(case["poly"]["names"])
    vidx = [var_index(n) for n in names]
    args = []
    kwargs = {}
    env_models = {}
    any_poly_arg = False
    for name, s in zip(names, case["spec"]):
        if s["how"] in ("pos", "kw"):
            live, m = build_value(s["val"])
            env_models[name] = m
            if s["val"]["t"] == "poly":
                any_poly_arg = True
            if s["how"] == "pos":
                args.append(live)
            else:
                kwargs[name] = live
        elif s["how"] == "none":
            args.append(None)
    # positional list must not end past the last positional slot
    npos = len([s for s in case["spec"] if s["how"] in ("pos", "none")])
    args = args[:npos]
    fails = []

    def fail(kind, msg):
        fails.append(Failure("call:%s" % kind, msg))
        return fails

    # ---- error cases
    if case["err"]:
        if case["err"] == "unknown-kw":
            bad = "q77" if "q77" not in names else "q78"
            kw = dict(kwargs)
            kw[bad] = 1
            a = list(args)
        else:
            i = next(i for i, s in enumerate(case["spec"]) if s["how"] == "pos")
            kw = dict(kwargs)
            kw[names[i]] = 2
            a = list(args)
        try:
            res = p(*a, **kw)
        except TypeError:
            ctx.label("error-case:" + case["err"])
            ctx.nontrivial(True)
            return []
        except Exception as err:
            return fail("wrong-exception:%s:%s" % (case["err"], type(err).__name__), repr(err))
        return fail("no-TypeError:" + case["err"], "returned %r" % (type(res),))

    arg_shape = numpy.broadcast_shapes(*[m.shape for m in env_models.values()]) if env_models else ()
    full_numeric = len(env_models) == len(names) and not any_poly_arg
    exp_shape = tuple(pm.shape) + tuple(arg_shape)

    # ---- expected values in the model, with overflow guard
    expected = numpy.empty(exp_shape, dtype=object)
    bmods = {n: numpy.broadcast_to(m, arg_shape) for n, m in env_models.items()}
    bound = 0
    for j in numpy.ndindex(*arg_shape):
        env = {var_index(n): bmods[n][j] for n in bmods}
        envabs = {k: v.absval() for k, v in env.items()}
        for i in numpy.ndindex(*pm.shape):
            e = pm[i].subs(env)
            expected[i + j] = e
            bound = max(bound, pm[i].absval().subs(envabs).absval().maxabs())
    narrow = any(s["val"] and s["val"]["t"] in ("np", "array", "list") and
                 s["val"].get("dtype") not in ("int64", "uint64", "float64", "complex128", None)
                 for s in case["spec"])
    # integer carriers of every width are widened by call(), so only the exact result has to fit;
    # narrow *float* carriers keep small dyadic values (their powers are computed in that width)
    # (a polynomial with inexact coefficients evaluates to floats: integer carriers of large values must then
    # not wrap around on the way, so those cases stay in)
    def float_valued(v):
        return bool(v) and (v["t"] in ("pyfloat", "pycomplex") or
                            (v["t"] in ("np", "array", "list") and str(v.get("dtype", "")).startswith(("float", "complex", "longdouble"))) or
                            (v["t"] == "poly" and v["desc"]["kind"] in ("f", "c")))

    # (polynomial-valued arguments: only when each of them has float coefficients and every name is supplied -
    # integer polynomials are raised to their powers in integers)
    all_supplied = len(env_models) == len(names)
    poly_args_float = all(float_valued(s["val"]) for s in case["spec"] if s["val"] and s["val"]["t"] == "poly")
    # (with inexact coefficients or another inexact argument also integer polynomials are raised as floats)
    float_result = (full_numeric or (all_supplied and any_poly_arg)) and (
        case["poly"]["kind"] in ("f", "c") or any(float_valued(s["val"]) for s in case["spec"]))
    single = any(s["val"] and s["val"].get("dtype") in ("float32", "complex64") for s in case["spec"])
    # (next to a single-precision carrier Python numbers adapt to it: its range and precision apply)
    if bound >= ((1e36 if single else 1e150) if float_result else 2 ** 62):
        ctx.discard_case("magnitude-bound")
        return []
    # also bound every intermediate power of an argument
    for name, s in zip(names, case["spec"]):
        if s["val"] and s["val"]["t"] in ("np", "pyint", "array", "list"):
            mx = max([abs(complex(x)) if not isinstance(x, list) else abs(complex(*x))
                      for x in (s["val"]["v"] if isinstance(s["val"]["v"], list) and s["val"]["t"] != "np" else [s["val"]["v"]])] or [0])
            deg = max([t[0][names.index(name)] for t in case["poly"]["terms"]] or [0])
            lim = 1e150 if float_result else 2 ** 62
            if s["val"]["t"] != "pyint" and s["val"].get("dtype") == "float16":
                lim = 2000
            if mx ** max(deg, 1) >= lim:
                ctx.discard_case("magnitude-bound")
                return []

    try:
        res = p(*args, **kwargs)
    except Exception as err:
        cls = "numeric" if full_numeric else "partial-or-poly"
        return fail("exception:%s:%s" % (type(err).__name__, cls), repr(err))

    def compare(res, what, allow_broadcast=False):
        if full_numeric and isinstance(res, numpoly.ndpoly):
            return fail("type:" + what, "full numeric evaluation returned an ndpoly")
        if isinstance(res, numpoly.ndpoly):
            try:
                got = to_model(res)
            except MalformedPoly as err:
                return fail("malformed:" + what, str(err))
        else:
            arr = numpy.asarray(res)
            if arr.dtype in (numpy.dtype("longdouble"), numpy.dtype("clongdouble")):
                arr = arr.astype(complex if arr.dtype.kind == "c" else float)  # (the model reads doubles)
            if arr.dtype == object or arr.dtype.names:
                return fail("type:" + what, "result array has dtype %s" % arr.dtype)
            got = numpy.empty(arr.shape, dtype=object)
            for idx in numpy.ndindex(*arr.shape):
                try:
                    got[idx] = MP.const(arr[idx])
                except ValueError:
                    return fail("non-finite:" + what, "non-finite value at %s" % (idx,))
        if allow_broadcast and tuple(got.shape) != exp_shape:
            # a stage that became constant no longer carries the later arguments' shape
            tail = tuple(got.shape[pm.ndim:])
            try:
                if tuple(got.shape[:pm.ndim]) != tuple(pm.shape):
                    raise ValueError
                numpy.broadcast_shapes(tail, arg_shape)
                got = got.reshape(tuple(pm.shape) + (1,) * (len(arg_shape) - len(tail)) + tail)
                got = numpy.broadcast_to(got, exp_shape)
            except ValueError:
                pass
        if tuple(got.shape) != exp_shape:
            return fail("shape:" + what, "shape %s, expected poly.shape + broadcast(args) = %s"
                        % (got.shape, exp_shape))
        for idx in numpy.ndindex(*exp_shape):
            if not mp_close(got[idx], expected[idx], 1e-5 if (single and float_result) else 1e-9, bound):
                return fail("value:" + what, "at %s got %r expected %r" % (idx, got[idx], expected[idx]))
        return None

    cls = "numeric" if full_numeric else ("poly-arg" if any_poly_arg else "partial")
    if compare(res, cls):
        return fails
    ctx.label("class:" + cls)

    # numpoly.call spelling
    try:
        res2 = numpoly.call(p, tuple(args), dict(kwargs))
    except Exception as err:
        return fail("call-spelling-exception:" + type(err).__name__, repr(err))
    if compare(res2, cls + ",call()"):
        return fails

    # carrier differential: the same integer value carried by every numeric type that can hold it
    if full_numeric and not arg_shape:
        scal = {}
        for n in names:
            e = env_models[n][()].constant()
            scal[n] = e
        float_typed = {n for n, sp in zip(names, case["spec"])
                       if sp["val"] and (sp["val"]["t"] in ("pyfloat", "pycomplex") or
                                         str(sp["val"].get("dtype", "")).startswith(("float", "complex", "longdouble")))}
        # (an argument that came as a float or complex number stays one: it decides that the result is inexact)
        ints = [n for n in names if isinstance(scal[n], int) and n not in float_typed]
        if ints and all(isinstance(v, (int,)) or not isinstance(v, GQ) for v in scal.values()):
            base_kwargs = {}
            ok = True
            for n in names:
                v = scal[n]
                if isinstance(v, int) and n in float_typed:
                    base_kwargs[n] = float(v)  # (an integral float stays a float: it makes the result one)
                elif isinstance(v, int):
                    base_kwargs[n] = v
                elif isinstance(v, Fraction):
                    base_kwargs[n] = float(v)
                else:
                    ok = False
            if ok:
                target_name = ints[case["stage"] % len(ints)]
                v = scal[target_name]
                carriers = []
                for dt in NP_INT:
                    info = numpy.iinfo(dt)
                    if info.min <= v <= info.max:
                        carriers.append(numpy.dtype(dt).type(v))
                # float carriers only where every power of the value is exact in that width
                col = names.index(target_name)
                deg = max([t[0][col] for t in case["poly"]["terms"]] or [0])
                if abs(v) ** max(deg, 1) < 2 ** 53 and bound < 2 ** 53:
                    carriers += [float(v), numpy.float64(v)]
                if abs(v) ** max(deg, 1) < 2 ** 24 and bound < 2 ** 24:
                    carriers.append(numpy.float32(v))
                carriers.append(numpy.array(v))
                for c in carriers:
                    kw2 = dict(base_kwargs)
                    kw2[target_name] = c
                    try:
                        r2 = p(**kw2)
                    except Exception as err:
                        return fail("carrier-exception:%s:%s" % (type(err).__name__, type(c).__name__),
                                    "p(%s=%r): %r" % (target_name, c, err))
                    if compare(r2, "carrier:" + (str(c.dtype) if hasattr(c, "dtype") else type(c).__name__)):
                        return fails
                ctx.label("carrier-differential")

    # staged evaluation: supply one numeric variable first, then the rest by keyword
    supplied = [n for n in names if n in env_models]
    # (with integer coefficients a stage that gets integer arguments only is integer arithmetic: where the full
    # value needs the float argument to stay representable, staging it first would have to overflow)
    int_stage_overflows = case["poly"]["kind"] in ("i", "b") and bound >= 2 ** 62
    if full_numeric and len(supplied) >= 2 and not int_stage_overflows:
        first = names[case["stage"] % len(names)]
        allv = dict(kwargs)
        pos_names = [n for n, s in zip(names, case["spec"]) if s["how"] in ("pos", "none")]
        ai = 0
        for n, s in zip(names, case["spec"]):
            if s["how"] in ("pos", "none"):
                if s["how"] == "pos":
                    allv[n] = args[ai]
                ai += 1
        if numpy.ndim(allv[first]) == 0:
            try:
                part = p(**{first: allv[first]})
                rest = {n: v for n, v in allv.items() if n != first}
                if isinstance(part, numpoly.ndpoly):
                    rest = {n: v for n, v in rest.items() if n in part.names}
                    staged = part(**rest) if rest else part
                else:
                    staged = part
            except Exception as err:
                return fail("staged-exception:" + type(err).__name__, repr(err))
            # shape of the staged result equals the one-shot result when `first` is scalar
            if isinstance(staged, numpoly.ndpoly) and not staged.isconstant():
                pass  # other variables vanished from `part`; value is checked below anyway
            if compare(staged, "staged", allow_broadcast=True) and fails:
                return fails
            ctx.label("staged-evaluation")

    # labels / non-triviality
    nt = False
    for name, s in zip(names, case["spec"]):
        if not s["val"]:
            continue
        col = names.index(name)
        deg2 = any(t[0][col] >= 2 and any(c != 0 and c != [0, 0] for c in t[1])
                   for t in case["poly"]["terms"])
        m = env_models[name]
        nonunit = any(not (x == 0 or x == 1) for x in m.flat)
        if deg2 and nonunit:
            nt = True
        t = s["val"]["t"]
        ctx.label("arg:" + (t if t != "np" else "np:" + s["val"]["dtype"]))
        if t == "pyint" and abs(s["val"]["v"]) > 2 ** 16:
            ctx.label("arg:pyint>2**16")
        if t == "pyint" and s["val"]["v"] < 0:
            ctx.label("arg:pyint<0")
    for s in case["spec"]:
        ctx.label("how:" + s["how"])
    if arg_shape:
        ctx.label("array-args")
        if pm.ndim >= 2:
            ctx.label("array-args-on->=2d-poly")
    ctx.nontrivial(nt)
    return fails
