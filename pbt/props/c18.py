"""C18 Exponent index generation and sorting are exact and platform-independent."""
import itertools
from fractions import Fraction

import numpy
from hypothesis import strategies as st

from ..core import Failure
from ..model import order_key

ID = "C18"
BUDGET = {"quick": 500, "thorough": 6000}
TECHNIQUE = ("bounded-exhaustive enumeration of small key matrices and index grids (multiprocessing in the thorough "
             "tier, two numpy CPU-dispatch configurations) + Hypothesis-generated large tie-rich matrices, vs a "
             "comparison-based reference sort and brute-force grid enumeration with exact / 60-digit norm arithmetic")
LEVEL_TEXT = ("glexsort: all key matrices with entries 0..2 up to a size bound are enumerated under all four "
              "graded/reverse settings and checked to be permutations that sort the columns in the reference order (ties "
              "between identical columns free), under the default and a reduced numpy CPU-feature configuration; large "
              "random matrices with many ties are sampled. glexindex/bindex/cross_truncate/monomial: all (start <= stop, "
              "dimensions, cross_truncation in {0,.5,.8,1,2,inf} and (lower, upper) norm pairs, graded, reverse) settings up "
              "to a bound, start > stop settings, and one-dimensional windows beyond 2**8 and 2**16 are compared "
              "with brute-force enumeration of the grid whose membership is decided in exact rational arithmetic (q in "
              "{0,1,2,inf}) or 60-digit mpmath (q in {.5,.8}).")
EXHAUSTIVE = False
EXHAUSTIVE_PARTS = ("quick: glexsort on every matrix with entries 0..2 of sizes 1xn (n<=6), 2xn (n<=5), 3xn (n<=3), all 4 "
                    "flag settings; glexindex for dimensions<=3 with scalar start<=stop<=4 and per-dimension stops<=3, all "
                    "6 norms x 4 orders. thorough: 2xn (n<=6), 3xn (n<=4) [1.15M matrices x 4], dimensions<=3 with bounds "
                    "<=6 and a sample for 4 dimensions. The 3x5/3x6 matrix spaces and 4-dimensional grids are sampled only.")
ENV_CONFIGS = [None, {"NPY_DISABLE_CPU_FEATURES": "X86_V4 X86_V3 AVX512_ICL AVX512_SPR AVX512_CLX AVX512_CNL"}]
RULE = (
    "glexsort(keys, graded, reverse): output is a permutation of range(n) and the key columns in output order are "
    "non-decreasing under the reference key (total degree first if graded; then lexicographic with the last row most "
    "significant, or the first row if reverse). glexindex/bindex: result == brute-force {x in grid : member(x, stop-1, q_upper) "
    "and not member(x, start-1, q_lower)} (empty when start > stop) sorted by the reference key, no duplicates; cross_truncate == the exact L_q membership "
    "(points within 1e-40 of the boundary count as inside); monomial(...)[i] is the single monomial with exponent row i. "
    "non-trivial = >= 2 distinct key columns of equal grade (glexsort) / >= 2 dimensions with a truncation that removes "
    "at least one grid point (index functions)."
)
LEVEL_TEXT += (" Also: (lower, upper) pairs of norms, start > stop (nothing lies between), one-dimensional windows around 2**8 and beyond 2**16, numpy-integer dimensions, and 4-6-dimensional grids with bounds up to 14 (quick) / 21 (thorough) under the exactly decidable norms.")
ASSUMPTIONS = [
    "two numpy CPU-dispatch configurations on this host stand in for 'platform-independent'; other architectures are out of reach",
    "the L_q membership definition (including zero and negative bounds and q=0) is the documented one in cross_truncate's docstring",
    "mpmath at 60 digits decides q in {0.5, 0.8}; a norm within 1e-40 of 1 is on the boundary",
]
NORMS = [0, 0.5, 0.8, 1, 2, "inf"]
PAIRS = [["inf", 1], [1, "inf"], ["inf", 0.5], [2, 1], [0, 2]]  # (lower norm, upper norm)
SETTINGS = [(False, False), (False, True), (True, False), (True, True)]


# ------------------------------------------------------------------ reference: membership

def member(x, bound, q):
    """Exact L_q membership of the non-negative integer tuple x for per-axis bounds (ints, may be <= 0)."""
    if any(b < 0 for b in bound):
        return False
    zero = [i for i, b in enumerate(bound) if b == 0]
    if zero:
        if any(x[i] != 0 for i in zero):
            return False
        rest = [i for i, b in enumerate(bound) if b != 0]
        if not rest:
            return True
        return member([x[i] for i in rest], [bound[i] for i in rest], q)
    if q == 0:
        return sum(1 for v in x if v > 0) <= 1 and all(v <= b for v, b in zip(x, bound))
    if q == "inf":
        return all(v <= b for v, b in zip(x, bound))
    if q in (1, 2):
        return sum(Fraction(v, b) ** q for v, b in zip(x, bound)) <= 1
    import mpmath

    mpmath.mp.dps = 60
    s = mpmath.mpf(0)
    for v, b in zip(x, bound):
        if v:
            s += (mpmath.mpf(v) / b) ** mpmath.mpf(str(q))
    return s <= 1 + mpmath.mpf("1e-40")


def norms_of(q):
    """(lower norm, upper norm): a pair gives both, a single value is the upper one (the lower default is 1)."""
    if isinstance(q, (list, tuple)):
        return q[0], q[1]
    return q, q


def ref_glexindex(start, stop, q, graded, reverse):
    """The tuples inside the upper bound (stop-1, upper norm) and not inside the lower one (start-1, lower norm)."""
    D = len(stop)
    bound = max(stop)
    q_lo, q_hi = norms_of(q)
    if D == 1:
        lo = max(start[0], 0)
        pts = [(v,) for v in range(bound) if lo <= v < bound]
    else:
        pts = []
        up = [s - 1 for s in stop]
        lo = [max(s, 0) - 1 for s in start]
        for x in itertools.product(range(max(bound, 0)), repeat=D):
            if member(x, up, q_hi) and not member(x, lo, q_lo):
                pts.append(x)
    pts.sort(key=lambda v: order_key(v, graded, reverse))
    return pts


def qval(q):
    if isinstance(q, (list, tuple)):
        return [qval(q[0]), qval(q[1])]
    return numpy.inf if q == "inf" else q


# ------------------------------------------------------------------ glexsort

def check_glexsort_matrix(numpoly, keys, graded, reverse):
    """None or message."""
    idx = numpoly.glexsort(keys, graded=graded, reverse=reverse)
    idx = numpy.asarray(idx)
    n = keys.shape[1]
    if idx.shape != (n,) or sorted(idx.tolist()) != list(range(n)):
        return "not a permutation of range(%d): %s" % (n, idx.tolist())
    cols = [tuple(keys[:, i].tolist()) for i in idx.tolist()]
    ks = [order_key(c, graded, reverse) for c in cols]
    for a, b in zip(ks, ks[1:]):
        if a > b:
            return "columns not sorted: %s" % (cols,)
    return None


def enum_glexsort(numpoly, D, n, ctx, fails):
    total = nt = 0
    vals = (0, 1, 2)
    for flat in itertools.product(vals, repeat=D * n):
        keys = numpy.array(flat, dtype=int).reshape(D, n)
        cols = {tuple(keys[:, i]) for i in range(n)}
        grades = {}
        for c in cols:
            grades[sum(c)] = grades.get(sum(c), 0) + 1
        tie = any(v >= 2 for v in grades.values())
        for graded, reverse in SETTINGS:
            total += 1
            nt += tie
            msg = check_glexsort_matrix(numpoly, keys, graded, reverse)
            if msg:
                key = "glexsort:order:%s" % ("graded" if graded else "lex")
                if not any(f.bucket == key for f in fails):
                    fails.append(Failure(key, "keys=%s graded=%s reverse=%s: %s" % (keys.tolist(), graded, reverse, msg),
                                         case={"glexsort_one": keys.tolist(), "graded": graded, "reverse": reverse}))
    ctx.add_evals(total, nt)


# ------------------------------------------------------------------ index functions

def check_grid(numpoly, start, stop, dims, q, graded, reverse, fails, scalar):
    """Compare glexindex / bindex / cross_truncate / monomial with the brute-force reference."""
    if scalar:
        a_start, a_stop = start[0], stop[0]
        st_, sp_ = [start[0]] * dims, [stop[0]] * dims
    else:
        a_start, a_stop = list(start), list(stop)
        st_, sp_ = list(start), list(stop)
    want = ref_glexindex(st_, sp_, q, graded, reverse)
    qtag = "%s/%s" % tuple(q) if isinstance(q, (list, tuple)) else q
    cls = "%dd,q=%s%s" % (dims, qtag, "" if scalar else ",per-axis")
    label = "start=%s stop=%s dims=%d q=%s graded=%s reverse=%s" % (a_start, a_stop, dims, q, graded, reverse)

    def fail(fn, kind, msg):
        key = "%s:%s:%s" % (fn, kind, ("q=%s" % qtag) + (",start>stop" if any(a > b for a, b in zip(st_, sp_)) else "")
                            if kind == "membership" else ("graded" if graded else "lex"))
        if not any(f.bucket == key for f in fails):
            fails.append(Failure(key, "%s: %s" % (label, msg),
                                 case={"grid_one": {"start": list(start), "stop": list(stop), "dims": dims, "q": q,
                                                    "graded": graded, "reverse": reverse, "scalar": scalar}}))
    try:
        got = numpoly.glexindex(a_start, a_stop, dimensions=numpy.int64(dims) if (len(want) + dims) % 2 else dims,
                                cross_truncation=qval(q), graded=graded, reverse=reverse)
    except Exception as err:
        fail("glexindex", "exception", repr(err))
        return False
    got = [tuple(int(v) for v in r) for r in numpy.asarray(got).reshape(-1, dims).tolist()]
    if len(set(got)) != len(got):
        fail("glexindex", "duplicates", "duplicate rows in %s" % got)
    elif set(got) != set(want):
        fail("glexindex", "membership", "missing %s extra %s" % (sorted(set(want) - set(got))[:5],
                                                              sorted(set(got) - set(want))[:5]))
    elif got != want:
        fail("glexindex", "order", "got %s expected %s" % (got[:8], want[:8]))
    # bindex spellings
    for ordering, (g, r) in (("G", (True, True)), ("GR", (True, False)), ("", (False, True)), ("R", (False, False))):
        if (g, r) != (graded, reverse):
            continue
        for inv in ("", "I"):
            try:
                b = numpoly.bindex(a_start, a_stop, dimensions=dims, ordering=ordering + inv,
                                   cross_truncation=qval(q))
            except Exception as err:
                fail("bindex", "exception", repr(err))
                continue
            b = [tuple(int(v) for v in row) for row in numpy.asarray(b).reshape(-1, dims).tolist()]
            exp = want[::-1] if inv else want
            if b != exp:
                fail("bindex", "order" if set(b) == set(exp) else "membership", "ordering=%r: got %s expected %s"
                     % (ordering + inv, b[:8], exp[:8]))
    # cross_truncate on the full grid with the upper bounds
    if dims >= 2:
        bound = max(sp_)
        grid = numpy.array(list(itertools.product(range(max(bound, 1)), repeat=dims)), dtype=int)
        up = [s - 1 for s in sp_]
        try:
            mask = numpoly.cross_truncate(grid, up if not scalar else up[0], qval(norms_of(q)[1]))
            expm = [member(tuple(x), up, norms_of(q)[1]) for x in grid.tolist()]
            if numpy.asarray(mask).tolist() != expm:
                bad = [grid[i].tolist() for i, (a, b) in enumerate(zip(numpy.asarray(mask).tolist(), expm)) if a != b][:5]
                fail("cross_truncate", "membership", "bound %s: wrong at %s" % (up, bad))
        except AssertionError:
            # the function asserts that the origin is inside; with a negative bound nothing is
            pass
        except Exception as err:
            fail("cross_truncate", "exception", repr(err))
    # monomial
    if want and len(want) <= 60:
        try:
            # (the dimension count as a plain or - every other time - a numpy integer, as numpy hands them out)
            mono = numpoly.monomial(a_start, a_stop, dimensions=numpy.int64(dims) if (len(want) + dims) % 2 else dims,
                                    cross_truncation=qval(q), graded=graded, reverse=reverse)
            ok = mono.shape == (len(want),)
            if ok:
                names = list(mono.names)
                for i, row in enumerate(want):
                    el = mono[i]
                    terms = {tuple(int(v) for v in e): c for e, c in zip(el.exponents.tolist(), el.coefficients)
                             if numpy.any(c)}
                    # names of the array may omit unused indeterminates: align by name
                    full = {}
                    for e, c in terms.items():
                        vec = [0] * dims
                        for nm, v in zip(el.names, e):
                            vec[int(nm[1:])] = v
                        full[tuple(vec)] = c
                    if list(full) != [tuple(row)] or full[tuple(row)] != 1:
                        ok = False
                        break
            if not ok:
                fail("monomial", "order", "monomial(...) does not list the monomials of the index rows in order")
            # the indeterminates given by name: column j of the index rows belongs to the j-th name, in whatever
            # order the names are written
            if ok and dims >= 2:
                for given in (tuple("q%d" % (dims - 1 - j) for j in range(dims)),
                              tuple("q%d" % k for k in (2, 10, 5, 1)[:dims])):
                    mono = numpoly.monomial(a_start, a_stop, dimensions=given, cross_truncation=qval(q), graded=graded,
                                            reverse=reverse)
                    got_terms = []
                    for i in range(len(want)):
                        el = mono[i]
                        terms = {tuple(int(v) for v in e): c for e, c in zip(el.exponents.tolist(), el.coefficients)
                                 if numpy.any(c)}
                        if len(terms) != 1 or list(terms.values())[0] != 1:
                            got_terms = None
                            break
                        e = list(terms)[0]
                        got_terms.append({nm: v for nm, v in zip(el.names, e) if v})
                    exp_terms = [{nm: v for nm, v in zip(given, row) if v} for row in want]
                    if mono.shape != (len(want),) or got_terms != exp_terms:
                        fail("monomial", "names-given", "dimensions=%s: got %s expected %s"
                             % (given, (got_terms or "malformed elements")[:6], exp_terms[:6]))
                        break
        except Exception as err:
            fail("monomial", "exception", repr(err))
    return len(want) < max(1, max(sp_)) ** dims and dims >= 2


def grid_settings(tier):
    """(start, stop, dims, scalar) tuples to enumerate."""
    out = []
    smax = 4 if tier == "quick" else 6
    for dims in (1, 2, 3):
        for stop in range(0, smax + 1):
            for start in range(0, stop + 1):
                out.append(((start,), (stop,), dims, True))
    # start above stop: nothing lies between the bounds
    for dims in (1, 2, 3):
        for start, stop in ((1, 0), (2, 1), (3, 2), (3, 1), (4, 2)):
            out.append(((start,), (stop,), dims, True))
    out.append(((2, 0), (1, 3), 2, False))
    out.append(((0, 3), (3, 2), 2, False))
    out.append(((3, 0, 1), (2, 2, 2), 3, False))
    pmax = 3 if tier == "quick" else 4
    for dims in (2, 3):
        for stop in itertools.product(range(1, pmax + 1), repeat=dims):
            out.append(((0,) * dims, stop, dims, False))
            if tier != "quick" or sum(stop) % 3 == 0:
                out.append(((1,) + (0,) * (dims - 1), stop, dims, False))
    if tier != "quick":
        for stop in itertools.product((1, 3, 5, 6), repeat=3):
            out.append(((0, 0, 0), stop, 3, False))
        for stop in ((2, 3, 3, 4), (1, 2, 3, 4), (4, 2, 2, 1), (3, 3, 3, 3), (2, 2, 2, 5)):
            out.append(((0,) * 4, stop, 4, False))
        for stop in range(0, 5):
            out.append(((0,), (stop,), 4, True))
    return out


def enumerate_cases(tier):
    sizes = [(1, n) for n in range(1, 7)] + [(2, n) for n in range(1, 6)] + [(3, n) for n in range(1, 4)]
    if tier == "thorough":
        sizes += [(2, 6), (3, 4)]
    for D, n in sizes:
        if D * n <= 8:
            yield {"glexsort_enum": [D, n]}
        else:
            # split by the first two entries to spread the work over the workers
            for a, b in itertools.product((0, 1, 2), repeat=2):
                yield {"glexsort_enum": [D, n], "prefix": [a, b]}
    grids = grid_settings(tier)
    for i in range(0, len(grids), 6):
        yield {"grid_chunk": [[list(s), list(t), d, sc] for s, t, d, sc in grids[i:i + 6]]}
    # larger grids in 4 and 5 dimensions under the exactly decidable norms: floating-point sums of many
    # quotients land next to the boundary there
    big = [(4, 11, 1), (4, 14, 1), (5, 8, 1), (4, 11, 2), (4, 7, "inf")]
    if tier != "quick":
        big += [(4, 19, 1), (4, 21, 1), (5, 11, 1), (6, 6, 1), (4, 14, 2)]
    for dims, stop, q in big:
        yield {"grid_one": {"start": [0], "stop": [stop], "dims": dims, "q": q, "graded": True, "reverse": False,
                            "scalar": True}}


@st.composite
def random_case(draw):
    if draw(st.booleans()):
        D = draw(st.integers(1, 4))
        n = draw(st.sampled_from([5, 8, 12, 17, 30, 60, 100, 200, 400]))
        hi = draw(st.sampled_from([1, 2, 2, 3, 5]))
        flat = draw(st.lists(st.integers(0, hi), min_size=D * n, max_size=D * n))
        return {"glexsort_random": {"D": D, "n": n, "flat": flat},
                "graded": draw(st.booleans()), "reverse": draw(st.booleans())}
    if draw(st.integers(0, 5)) == 0:
        # one dimension, bounds around and beyond the widths of the narrow integer types
        base = draw(st.sampled_from([250, 65530, 65536, 70000, 131070, 200000]))
        start = base + draw(st.integers(-4, 8))
        return {"big_1d": {"start": start, "stop": start + draw(st.integers(0, 9)),
                           "graded": draw(st.booleans()), "reverse": draw(st.booleans())}}
    dims = draw(st.integers(2, 4))
    stop = draw(st.lists(st.integers(0, 6 if dims < 4 else 4), min_size=dims, max_size=dims))
    start = [draw(st.integers(0, s)) if draw(st.integers(0, 2)) == 0 else 0 for s in stop]
    if draw(st.integers(0, 5)) == 0:
        # a start bound above the stop bound in some axis
        i = draw(st.integers(0, dims - 1))
        start[i] = stop[i] + draw(st.integers(1, 2))
    q = draw(st.sampled_from(NORMS)) if draw(st.integers(0, 3)) else [draw(st.sampled_from(NORMS)), draw(st.sampled_from(NORMS))]
    return {"grid_one": {"start": start, "stop": stop, "dims": dims, "q": q,
                         "graded": draw(st.booleans()), "reverse": draw(st.booleans()), "scalar": False}}


def strategy(tier):
    return random_case()


def check_case(case, ctx):
    import numpoly

    fails = []
    if "glexsort_enum" in case:
        D, n = case["glexsort_enum"]
        if "prefix" in case:
            a, b = case["prefix"]
            total = nt = 0
            for flat in itertools.product((0, 1, 2), repeat=D * n - 2):
                keys = numpy.array((a, b) + flat, dtype=int).reshape(D, n)
                cols = {tuple(keys[:, i]) for i in range(n)}
                grades = {}
                for c in cols:
                    grades[sum(c)] = grades.get(sum(c), 0) + 1
                tie = any(v >= 2 for v in grades.values())
                for graded, reverse in SETTINGS:
                    total += 1
                    nt += tie
                    msg = check_glexsort_matrix(numpoly, keys, graded, reverse)
                    if msg:
                        key = "glexsort:order:%s" % ("graded" if graded else "lex")
                        if not any(f.bucket == key for f in fails):
                            fails.append(Failure(key, "keys=%s graded=%s reverse=%s: %s"
                                                 % (keys.tolist(), graded, reverse, msg),
                                                 case={"glexsort_one": keys.tolist(), "graded": graded,
                                                       "reverse": reverse}))
            ctx.add_evals(total, nt)
        else:
            enum_glexsort(numpoly, D, n, ctx, fails)
        ctx.label("enumerated:glexsort")
        return fails
    if "glexsort_one" in case or "glexsort_random" in case:
        if "glexsort_one" in case:
            keys = numpy.array(case["glexsort_one"], dtype=int)
        else:
            r = case["glexsort_random"]
            keys = numpy.array(r["flat"], dtype=int).reshape(r["D"], r["n"])
        msg = check_glexsort_matrix(numpoly, keys, case["graded"], case["reverse"])
        if msg:
            fails.append(Failure("glexsort:order:%s" % ("graded" if case["graded"] else "lex"),
                                 "%dx%d matrix, graded=%s reverse=%s: %s" % (keys.shape[0], keys.shape[1],
                                                                            case["graded"], case["reverse"], msg[:300])))
        cols = {tuple(keys[:, i]) for i in range(keys.shape[1])}
        ctx.label("random:glexsort:n=%d" % keys.shape[1] if keys.shape[1] >= 100 else "random:glexsort:n<100")
        ctx.nontrivial(len(cols) >= 2 and len({sum(c) for c in cols}) < len(cols))
        return fails
    if "grid_chunk" in case:
        total = nt = 0
        for start, stop, dims, scalar in case["grid_chunk"]:
            for q in NORMS + (PAIRS if dims >= 2 else []):
                for graded, reverse in SETTINGS:
                    total += 1
                    nt += bool(check_grid(numpoly, start, stop, dims, q, graded, reverse, fails, scalar))
        ctx.add_evals(total, nt)
        ctx.label("enumerated:grids")
        return fails
    if "big_1d" in case:
        b = case["big_1d"]
        want = [[v] for v in range(max(b["start"], 0), b["stop"])]
        for fn, call in (("glexindex", lambda: numpoly.glexindex(b["start"], b["stop"], graded=b["graded"], reverse=b["reverse"])),
                         ("bindex", lambda: numpoly.bindex(b["start"], b["stop"], ordering="G" if b["graded"] else ""))):
            try:
                got = numpy.asarray(call()).reshape(-1, 1).tolist()
            except Exception as err:
                fails.append(Failure("%s:exception:1d-large" % fn, "start=%d stop=%d: %r" % (b["start"], b["stop"], err)))
                continue
            if got != want:
                fails.append(Failure("%s:membership:1d-large" % fn, "start=%d stop=%d: got %s expected %s"
                                     % (b["start"], b["stop"], got[:12], want[:12])))
        ctx.label("random:1d-large:%s" % (">=65536" if b["stop"] > 65536 else "<65536"))
        ctx.nontrivial(len(want) >= 2)
        return fails
    g = case["grid_one"]
    nt = check_grid(numpoly, g["start"], g["stop"], g["dims"], g["q"], g["graded"], g["reverse"], fails, g["scalar"])
    ctx.label("random:grid:dims=%d" % g["dims"])
    ctx.nontrivial(bool(nt))
    return fails
