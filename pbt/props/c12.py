"""C12 Coefficient values survive every dtype; no uninitialised memory is returned."""
import itertools
import warnings
import pickle

import numpy
from hypothesis import strategies as st

from .. import gen, hooks
from ..core import Failure

ID = "C12"
OWNS_CONSTRUCTION = True
BUDGET = {"quick": 500, "thorough": 10000}
TECHNIQUE = ("complete enumeration of the numeric dtypes and their ordered pairs x constructors / casts / arithmetic / "
             "shape functions, with the poison allocator armed (every fresh polynomial buffer pre-filled with 0xA5), vs "
             "numpy's own casts and promotion; Hypothesis-generated values and broadcasting shapes on top")
LEVEL_TEXT = ("All 14 numeric dtypes numpy offers (bool, 8 integer, 3 float, 2 complex) and all 196 ordered pairs are "
              "enumerated: construction from data of the dtype, requesting a dtype at construction (polynomial, "
              "aspolynomial, polynomial_from_attributes, variable, symbols), astype, + - * ** between dtypes, indexing "
              "and shape functions. Expected values and dtypes come from numpy's cast / promotion; with the poison "
              "allocator armed no returned column may contain an all-0xA5 item; zero-surviving-term results must be zeros "
              "of the right shape.")
EXHAUSTIVE_PARTS = "the dtype set (14) and the ordered dtype pairs (196) are enumerated completely; values/shapes are sampled"
RULE = (
    "enumerated: for every dtype d: polynomial/aspolynomial/polynomial_from_attributes/list-of-scalars construction "
    "from data of dtype d, variable(dtype=d), symbols(dtype=d), indexing/reshape/transpose/concatenate/copy/pickle of a "
    "d polynomial; for every ordered pair (d1,d2): polynomial(x_d1, dtype=d2) for ndarray and ndpoly x, "
    "aspolynomial(x_d1, dtype=d2), polynomial_from_attributes(dtype=d2), astype(d2) == x.astype(d2) exactly; "
    "p_d1 + - * p_d2 (same shape and broadcasting) and p_d1 ** k have numpy's promoted dtype and the values numpy "
    "computes on the coefficient arrays; zero-surviving-terms class (a-a, set_dimensions dropping every term, "
    "derivative of a constant). generated: random values/shapes/term layouts for the same operations. "
    "non-trivial = a dtype outside {int64,float64,complex128} or two different dtypes are involved."
)
LEVEL_TEXT += (" Also per dtype pair: dtype= requests to sum/cumsum/add/subtract/multiply/prod and their method / ufunc.reduce spellings on values that overflow, round or truncate in the narrow type; prod's accumulator type; power with exponent arrays/scalars of each integer dtype; coefficient lists of mixed dtype and shape (numpy's common type); polynomial(structured / sympy input, dtype=); lists mixing a polynomial with Python numbers; 256 coinciding partial products; attribute lists without coefficients under the poison allocator.")
ASSUMPTIONS = [
    "values are kept in range for the narrowest dtype involved (small non-negative for unsigned, no '-' on bool)",
    "numpy's own result on the coefficient arrays (same operation, same dtypes) is the specification of promotion and casting",
    "size-0 arrays are a known finding (shape lost because ndpoly.coefficients returns []), reported under its own key",
    "harness-side poison allocator (pbt/hooks.py) wraps ndpoly.__new__",
]

DTYPES = ["bool", "int8", "int16", "int32", "int64", "uint8", "uint16", "uint32", "uint64",
          "float16", "float32", "float64", "complex64", "complex128"]
NATIVE = {"int64", "float64", "complex128"}


def data(dt, shape=(3,), offset=0):
    """Small values valid for dtype dt (never the poison pattern)."""
    n = int(numpy.prod(shape, dtype=int))
    base = (numpy.arange(n) + offset) % 4
    if dt == "bool":
        return (base % 2 == 1).reshape(shape)
    if dt.startswith("complex"):
        return (base + 1j * ((base + 1) % 3)).astype(dt).reshape(shape)
    if dt.startswith("float"):
        return (base / 2.0).astype(dt).reshape(shape)
    return base.astype(dt).reshape(shape)


def edge(dt, variant=0):
    """Values whose sums overflow / round / truncate in dtype dt but not in a wider one."""
    d = numpy.dtype(dt)
    if d.kind == "b":
        v = [True, True, False]
    elif d.kind in "iu":
        m = int(numpy.iinfo(d).max)
        v = [m, m - 3, 5]
    elif d.kind == "f":
        big = {2: 2048.0, 4: 2.0 ** 24, 8: 2.0 ** 53}[d.itemsize]
        v = [big, 1.5, 2.75]
    else:
        big = {8: 2.0 ** 24, 16: 2.0 ** 53}[d.itemsize]
        v = [big + 1.5j, 1.5 + 2.75j, 2.75 + big * 1j]
    if variant:
        v = v[1:] + v[:1]
    return numpy.array(v, dtype=d)


def enumerate_cases(tier):
    for d in DTYPES:
        yield {"single": d}
    for d1, d2 in itertools.product(DTYPES, repeat=2):
        yield {"pair": [d1, d2]}
    yield {"zero_terms": True}
    yield {"many_coinciding": True}
    yield {"python_ints": True}


@st.composite
def random_case(draw):
    d1 = draw(st.sampled_from(DTYPES))
    d2 = draw(st.sampled_from(DTYPES))
    target = draw(st.sampled_from([(), (2,), (3,), (2, 2), (2, 1, 2)]))
    s1 = target if draw(st.booleans()) else gen.broadcast_member(draw, target)
    s2 = target if draw(st.booleans()) else gen.broadcast_member(draw, target)
    nt1 = draw(st.integers(1, 3))
    nt2 = draw(st.integers(1, 3))
    rows1 = draw(st.lists(st.lists(st.integers(0, 2), min_size=2, max_size=2), min_size=nt1, max_size=nt1, unique_by=tuple))
    rows2 = draw(st.lists(st.lists(st.integers(0, 2), min_size=2, max_size=2), min_size=nt2, max_size=nt2, unique_by=tuple))
    return {"random": [d1, d2], "shapes": [list(s1), list(s2)], "rows": [rows1, rows2],
            "offsets": [draw(st.integers(0, 3)), draw(st.integers(0, 3))],
            "op": draw(st.sampled_from(["add", "sub", "mul", "pow"]))}


def strategy(tier):
    return random_case()


class Checker:
    def __init__(self, ctx):
        import numpoly

        self.numpoly = numpoly
        self.ctx = ctx
        self.fails = []
        self.n = 0

    def fail(self, op, kind, cls, msg):
        key = "%s:%s:%s" % (op, kind, cls)
        if not any(f.bucket == key for f in self.fails):
            self.fails.append(Failure(key, msg))

    def run(self, op, cls, fn, expect_vals, expect_dtype, label=""):
        """fn() -> ndpoly; its coefficients (in exponent order given by expect_vals keys) must match."""
        numpoly = self.numpoly
        self.n += 1
        hooks.poison(True)
        try:
            p = fn()
        except hooks.DivisionLoop:
            raise
        except Exception as err:
            hooks.poison(False)
            return self.fail(op, "exception:" + type(err).__name__, cls, "%s: %r" % (label, err))
        hooks.poison(False)
        if not isinstance(p, numpoly.ndpoly):
            return self.fail(op, "type", cls, "%s: %r" % (label, type(p)))
        if expect_dtype is not None and p.dtype != numpy.dtype(expect_dtype):
            return self.fail(op, "dtype", cls, "%s: dtype %s, expected %s" % (label, p.dtype, expect_dtype))
        try:
            if hooks.poly_has_poison(p):
                return self.fail(op, "poison", cls, "%s: a returned coefficient was never written (0xA5 pattern)" % label)
        except Exception as err:
            return self.fail(op, "poison-scan", cls, repr(err))
        got = {tuple(int(x) for x in e): numpy.asarray(c) for e, c in zip(p.exponents.tolist(), p.coefficients)}
        for expo, want in expect_vals.items():
            want = numpy.asarray(want)
            have = got.pop(expo, None)
            if have is None:
                if numpy.any(want != 0):
                    return self.fail(op, "value", cls, "%s: term %s missing (expected %s)" % (label, expo, want.tolist()))
                continue
            if have.shape != want.shape:
                return self.fail(op, "shape", cls, "%s: term %s shape %s expected %s" % (label, expo, have.shape, want.shape))
            with warnings.catch_warnings(), numpy.errstate(all="ignore"):
                warnings.simplefilter("ignore")
                same = numpy.array_equal(have, want.astype(have.dtype), equal_nan=have.dtype.kind in "fc")
            if not same:
                return self.fail(op, "value", cls, "%s: term %s is %s, expected %s" % (label, expo, have.tolist(), want.tolist()))
        for expo, have in got.items():
            if numpy.any(have != 0):
                return self.fail(op, "value", cls, "%s: unexpected term %s = %s" % (label, expo, have.tolist()))
        return p


def cls_of(*dts):
    return "non-native" if any(d not in NATIVE for d in dts) else "native"


def check_single(d, ck):
    numpoly = ck.numpoly
    x = data(d)
    c = cls_of(d)
    z = (0,)
    ck.run("polynomial(ndarray)", c, lambda: numpoly.polynomial(x), {z: x}, d, d)
    ck.run("aspolynomial(ndarray)", c, lambda: numpoly.aspolynomial(x), {z: x}, d, d)
    ck.run("polynomial(list-of-scalars)", c, lambda: numpoly.polynomial([v for v in x]), {z: x}, d, d)
    ck.run("polynomial_from_attributes", c,
           lambda: numpoly.polynomial_from_attributes([[0], [2]], [x, x[::-1].copy()]), {(0,): x, (2,): x[::-1]}, d, d)
    one = numpy.ones((), dtype=d)
    ck.run("variable(dtype)", c, lambda: numpoly.variable(dtype=d), {(1,): one}, d, d)
    ck.run("symbols(dtype)", c, lambda: numpoly.symbols("q0", dtype=d), {(1,): one}, d, d)
    ck.run("variable(2,dtype)", c, lambda: numpoly.variable(2, dtype=d)[1], {(0, 1): one}, d, d)
    raw = numpy.array(numpoly.polynomial_from_attributes([[0], [2]], [x, x[::-1].copy()]).values)
    if raw.dtype[0] == numpy.dtype(d):
        ck.run("polynomial(structured)", c, lambda: numpoly.polynomial(raw), {(0,): x, (2,): x[::-1]}, d, d)
    try:
        import sympy
        expr = 3 * sympy.Symbol("q0") ** 2 + 2
    except Exception:
        expr = None
    if expr is not None:
        with warnings.catch_warnings(), numpy.errstate(all="ignore"):
            warnings.simplefilter("ignore")
            ck.run("polynomial(sympy,dtype)", c, lambda: numpoly.polynomial(expr, dtype=d),
                   {(0,): numpy.array(2).astype(d), (2,): numpy.array(3).astype(d)}, d, d)
    # a list mixing a polynomial of this dtype with plain Python numbers composes like numpy.array does
    # with a scalar of this dtype in the polynomial's place: Python numbers count with their default types
    x0 = x[1]
    px0 = numpoly.polynomial_from_attributes([[1]], [x0])
    if px0.dtype == numpy.dtype(d):
        for pyval in (0.1, 1000, -3, 2.5 + 0.5j, True):
            if d == "bool" and isinstance(pyval, bool):
                continue
            want_dtype = numpy.result_type(numpy.dtype(d), type(pyval))
            with warnings.catch_warnings(), numpy.errstate(all="ignore"):
                warnings.simplefilter("ignore")
                ck.run("polynomial([poly,python-scalar])", c, lambda: numpoly.polynomial([px0, pyval]),
                       {(1,): numpy.array([x0, 0]).astype(want_dtype), (0,): numpy.array([0, pyval]).astype(want_dtype)},
                       want_dtype, "%s,%r" % (d, pyval))
    base = numpoly.polynomial_from_attributes([[0], [1]], [data(d, (2, 2)), data(d, (2, 2), 1)])
    a, b = data(d, (2, 2)), data(d, (2, 2), 1)
    if base.dtype == numpy.dtype(d):
        ck.run("getitem", c, lambda: base[1], {(0,): a[1], (1,): b[1]}, d, d)
        ck.run("reshape", c, lambda: numpoly.reshape(base, (4,)), {(0,): a.reshape(4), (1,): b.reshape(4)}, d, d)
        ck.run("transpose", c, lambda: base.T, {(0,): a.T, (1,): b.T}, d, d)
        ck.run("concatenate", c, lambda: numpoly.concatenate([base, base]),
               {(0,): numpy.concatenate([a, a]), (1,): numpy.concatenate([b, b])}, d, d)
        ck.run("copy", c, lambda: base.copy(), {(0,): a, (1,): b}, d, d)
        ck.run("pickle", c, lambda: pickle.loads(pickle.dumps(base)), {(0,): a, (1,): b}, d, d)
        if d != "bool":  # numpy itself has no unary + for booleans
            ck.run("positive", c, lambda: +base, {(0,): a, (1,): b}, d, d)
        ck.run("sum", c, lambda: numpoly.sum(base, axis=0), {(0,): numpy.sum(a, axis=0), (1,): numpy.sum(b, axis=0)},
               numpy.sum(a, axis=0).dtype, d)
    # linear algebra keeps the values numpy computes: the determinant of narrow integers does not wrap
    # (numpy.linalg.det works in floating point), boolean matmul / inner are "or of ands", not counts
    with warnings.catch_warnings(), numpy.errstate(all="ignore"):
        warnings.simplefilter("ignore")
        hi = edge(d)[0]
        if numpy.dtype(d).kind in "iu" and numpy.dtype(d).itemsize == 8:
            hi = numpy.dtype(d).type(2 ** 31)  # (twice the largest 64 bit integer has no exact integer result)
        m = numpy.array([[hi, 0], [0, 2]], dtype=d)
        try:
            want = complex(numpy.linalg.det(m))
        except Exception:
            want = None
        if want is not None:
            ck.n += 1
            try:
                got = complex(numpoly.det(numpoly.polynomial(m)).tonumpy())
                mq = numpoly.polynomial_from_attributes([[1]], [m])
                gq = numpoly.det(mq)
                gq = {tuple(e): complex(cc) for e, cc in zip(gq.exponents.tolist(), gq.coefficients)}.get((2,), 0)
                for what, g in (("constant", got), ("times q0", gq)):
                    if abs(g - want) > 1e-9 * max(1.0, abs(want)):
                        ck.fail("det", "value", c, "%s, [[%r, 0], [0, 2]] (%s): %r, numpy.linalg.det gives %r" % (d, hi, what, g, want))
                        break
            except Exception as err:
                ck.fail("det", "exception:" + type(err).__name__, c, "%s: %r" % (d, err))
        # negative and zero determinants of small entries: also unsigned and boolean matrices have them
        for mat in ([[1, 2], [3, 1]], [[0, 1, 1], [0, 1, 1], [1, 0, 0]], [[1, 1, 0], [0, 1, 1], [1, 0, 0]]):
            m = numpy.array(mat).astype(d)
            try:
                want = complex(numpy.linalg.det(m))
            except Exception:
                continue
            ck.n += 1
            try:
                got = complex(numpoly.det(numpoly.polynomial(m)).tonumpy())
                gq = numpoly.det(numpoly.polynomial_from_attributes([[1]], [m]))
                gq = {tuple(e): complex(cc) for e, cc in zip(gq.exponents.tolist(), gq.coefficients)}.get((len(mat),), 0)
            except Exception as err:
                ck.fail("det", "exception:" + type(err).__name__, c, "%s %s: %r" % (d, mat, err))
                continue
            for what, g in (("constant", got), ("times q0", gq)):
                if abs(g - want) > 1e-9 * max(1.0, abs(want)):
                    ck.fail("det", "value", c, "%s, %s (%s): %r, numpy.linalg.det gives %r" % (d, mat, what, g, want))
                    break
        xs = data(d, (2, 2)) if d != "bool" else numpy.ones((2, 2), dtype=bool)
        for fname in ("matmul", "inner", "outer"):
            try:
                want = getattr(numpy, fname)(xs, xs)
            except Exception:
                continue
            ck.n += 1
            try:
                got = getattr(numpoly, fname)(numpoly.polynomial(xs), numpoly.polynomial(xs)).tonumpy()
            except Exception as err:
                ck.fail(fname, "exception:" + type(err).__name__, c, "%s: %r" % (d, err))
                continue
            if got.shape != want.shape or not numpy.array_equal(got, want):
                ck.fail(fname, "value", c, "%s: %s, numpy gives %s" % (d, got.tolist(), want.tolist()))
        # narrow integers at the type's limits: either numpy's value (computed in the narrow type) or, when the
        # result type is wider, the exact one - not products wrapped in the narrow type and then summed in a wide one
        if numpy.dtype(d).kind in "iu" and numpy.dtype(d).itemsize < 8:
            top = int(edge(d)[0])
            xs2 = numpy.array([[top, 3], [5, top - 1]], dtype=d)
            for fname in ("matmul", "inner"):
                want_np = getattr(numpy, fname)(xs2, xs2).astype(object)
                want_exact = getattr(numpy, fname)(xs2.astype(object), xs2.astype(object))
                ck.n += 1
                try:
                    got = getattr(numpoly, fname)(numpoly.polynomial(xs2), numpoly.polynomial(xs2)).tonumpy().astype(object)
                    gq = getattr(numpoly, fname)(numpoly.polynomial_from_attributes([[1]], [xs2]), numpoly.polynomial(xs2))
                    gq = dict(zip((tuple(e) for e in gq.exponents.tolist()), gq.coefficients)).get((1,))
                    gq = None if gq is None else numpy.asarray(gq).astype(object)
                except Exception as err:
                    ck.fail(fname, "exception:" + type(err).__name__, c, "%s: %r" % (d, err))
                    continue
                for what, g in (("constants", got), ("times q0", gq)):
                    if g is None or not (numpy.array_equal(g, want_np) or numpy.array_equal(g, want_exact)):
                        ck.fail(fname, "value", c, "%s at the type's limits (%s): %s; numpy gives %s, the exact value is %s"
                                % (d, what, None if g is None else g.tolist(), want_np.tolist(), want_exact.tolist()))
                        break
            # a requested narrow result type: numpy's own (wrapping) arithmetic in that type, in that type
            with warnings.catch_warnings(), numpy.errstate(all="ignore"):
                warnings.simplefilter("ignore")
                want = numpy.matmul(xs2, xs2, dtype=d)
                ck.run("matmul(dtype=)", c, lambda: numpy.matmul(numpoly.polynomial(xs2), numpoly.polynomial(xs2), dtype=d),
                       {(0,): want}, want.dtype, d)
            # a monomial to a power that is a larger number than the coefficient type holds: the exponent is not a
            # coefficient
            big_n = 300 if numpy.dtype(d).itemsize == 1 else (70000 if numpy.dtype(d).itemsize == 2 else 10 ** 5)
            one = numpy.array(1, dtype=d)
            ck.run("monomial ** n", c, lambda: numpoly.variable(dtype=d) ** big_n, {(big_n,): one}, d, "%s ** %d" % (d, big_n))
        # a determinant beyond the signed 64-bit range (unsigned entries >= 2**63): numpy answers in floating point
        if d == "uint64":
            big = numpy.array([[2 ** 63 + 5, 0], [0, 1]], dtype=d)
            ck.n += 1
            try:
                got = float(numpoly.det(numpoly.polynomial(big)).tonumpy())
                g1 = float(numpoly.det(numpoly.polynomial(big[:1, :1])).tonumpy())
                for g in (got, g1):
                    if abs(g - float(2 ** 63 + 5)) > 1e-9 * 2.0 ** 63:
                        ck.fail("det", "value", c, "uint64 entry 2**63+5: determinant %r, numpy.linalg.det gives %r"
                                % (g, float(numpy.linalg.det(big))))
                        break
            except Exception as err:
                ck.fail("det", "exception:" + type(err).__name__, c, "%s: %r" % (d, err))
    # products accumulate like numpy.prod: narrow integers in the platform integer
    xe = edge(d)[:2]
    pe = numpoly.polynomial_from_attributes([[1]], [xe])
    if pe.dtype == numpy.dtype(d):
        with warnings.catch_warnings(), numpy.errstate(all="ignore"):
            warnings.simplefilter("ignore")
            want = numpy.prod(xe)
            ck.run("prod", c, lambda: numpoly.prod(pe), {(2,): want}, want.dtype, d)
            want = numpy.prod(xe.reshape(2, 1), axis=0)
            ck.run("prod(axis)", c, lambda: numpoly.prod(pe.reshape(2, 1), axis=0), {(2,): want}, want.dtype, d)


def check_pair(d1, d2, ck):
    import warnings
    numpoly = ck.numpoly
    c = cls_of(d1, d2)
    x = data(d1)
    with numpy.errstate(all="ignore"):
        import warnings
        with warnings.catch_warnings():
            warnings.simplefilter("ignore")
            cast = x.astype(d2)
    z = (0,)
    lab = "%s->%s" % (d1, d2)
    ck.run("polynomial(ndarray,dtype)", c, lambda: numpoly.polynomial(x, dtype=d2), {z: cast}, d2, lab)
    ck.run("aspolynomial(ndarray,dtype)", c, lambda: numpoly.aspolynomial(x, dtype=d2), {z: cast}, d2, lab)
    ck.run("polynomial_from_attributes(dtype)", c,
           lambda: numpoly.polynomial_from_attributes([[0], [1]], [x, x], dtype=d2), {(0,): cast, (1,): cast}, d2, lab)
    x2 = data(d1, (2, 2))
    with numpy.errstate(all="ignore"):
        import warnings
        with warnings.catch_warnings():
            warnings.simplefilter("ignore")
            cast2 = numpy.array(x2.tolist()).astype(d2)
    # (numpy.array(list_of_complex, dtype=<real>) itself raises: not a cast numpy offers for lists)
    if not (d1.startswith("complex") and not d2.startswith("complex")):
        ck.run("polynomial(nested-list,dtype)", c, lambda: numpoly.polynomial(x2.tolist(), dtype=d2),
               {(0,): cast2}, d2, lab)
        ck.run("polynomial(list,dtype)", c, lambda: numpoly.polynomial(x.tolist(), dtype=d2),
               {(0,): numpy.array(x.tolist()).astype(d2)}, d2, lab)
    src = numpoly.polynomial_from_attributes([[0], [1]], [x, x[::-1].copy()])
    if src.dtype == numpy.dtype(d1):
        ck.run("astype", c, lambda: src.astype(d2), {(0,): cast, (1,): cast[::-1]}, d2, lab)
        ck.run("polynomial(ndpoly,dtype)", c, lambda: numpoly.polynomial(src, dtype=d2), {(0,): cast, (1,): cast[::-1]}, d2, lab)
        ck.run("aspolynomial(ndpoly,dtype)", c, lambda: numpoly.aspolynomial(src, dtype=d2), {(0,): cast, (1,): cast[::-1]}, d2, lab)
        raw = numpy.array(src.values)
        ck.run("polynomial(structured,dtype)", c, lambda: numpoly.polynomial(raw, names=src.names, dtype=d2),
               {(0,): cast, (1,): cast[::-1]}, d2, lab)
    # a coefficient list mixing dtypes composes like numpy.array on the coefficients together: the common
    # (promoted) dtype, every coefficient cast like numpy casts it - no value may be lost to the dtype of
    # whichever coefficient happens to come first
    y = data(d2, (3,), 1)
    with warnings.catch_warnings(), numpy.errstate(all="ignore"):
        warnings.simplefilter("ignore")
        common = numpy.result_type(numpy.dtype(d1), numpy.dtype(d2))
        xc, yc = x.astype(common), y.astype(common)
    ck.run("polynomial_from_attributes(mixed-list)", c,
           lambda: numpoly.polynomial_from_attributes([[0], [1]], [x, y]), {(0,): xc, (1,): yc}, common, lab)
    ck.run("polynomial(dict,mixed)", c,
           lambda: numpoly.polynomial({(0,): x, (2,): y}), {(0,): xc, (2,): yc}, common, lab)
    # coefficients of different (broadcastable) shapes
    ck.run("polynomial_from_attributes(mixed-shapes)", c,
           lambda: numpoly.polynomial_from_attributes([[0], [1]], [x[:1], y]),
           {(0,): numpy.broadcast_to(x[:1], y.shape).astype(common), (1,): yc}, common, lab)
    # joins / selection between dtypes follow numpy's promotion
    px, py = numpoly.polynomial(x), numpoly.polynomial(y)
    if px.dtype == numpy.dtype(d1) and py.dtype == numpy.dtype(d2):
        with warnings.catch_warnings(), numpy.errstate(all="ignore"):
            warnings.simplefilter("ignore")
            cat = numpy.concatenate([x, y])
            ck.run("concatenate", c, lambda: numpoly.concatenate([px, py]), {(0,): cat}, cat.dtype, lab)
            ck.run("stack", c, lambda: numpoly.stack([px, py]), {(0,): numpy.stack([x, y])}, cat.dtype, lab)
            ck.run("hstack", c, lambda: numpoly.hstack([px, py]), {(0,): numpy.hstack([x, y])}, cat.dtype, lab)
            cond = numpy.array([True, False, True])
            wh = numpy.where(cond, x, y)
            ck.run("where", c, lambda: numpoly.where(cond, px, py), {(0,): wh}, wh.dtype, lab)
            if d1 != "bool" and d2 != "bool" and not d1.startswith("complex") and not d2.startswith("complex"):
                mx = numpy.maximum(x, y)
                ck.run("maximum", c, lambda: numpoly.maximum(px, py), {(0,): mx}, mx.dtype, lab)
            if numpy.can_cast(numpy.dtype(d2), numpy.dtype(d1), "same_kind") and d1 != "bool":
                ed = numpy.ediff1d(x, to_begin=y[:1], to_end=y[1:2])
                ck.run("ediff1d(boundaries)", c, lambda: numpoly.ediff1d(px, to_begin=py[:1], to_end=py[1:2]),
                       {(0,): ed}, ed.dtype, lab)
            if d1 != "bool" and d2 != "bool":
                df = numpy.diff(x, prepend=y[:1])
                ck.run("diff(prepend)", c, lambda: numpoly.diff(px, prepend=py[:1]), {(0,): df}, df.dtype, lab)
    # arithmetic between dtypes: p1 = a1*q0 + b1, p2 = a2*q0 + b2
    for shp1, shp2, tag in (((3,), (3,), "same-shape"), ((3,), (2, 1), "broadcast")):
        a1, b1 = data(d1, shp1, 1), data(d1, shp1, 2)
        a2, b2 = data(d2, shp2, 0), data(d2, shp2, 3)
        p1 = numpoly.polynomial_from_attributes([[0], [1]], [b1, a1], retain_coefficients=True)
        p2 = numpoly.polynomial_from_attributes([[0], [1]], [b2, a2], retain_coefficients=True)
        if p1.dtype != numpy.dtype(d1) or p2.dtype != numpy.dtype(d2):
            continue
        cls = c + ("," + tag if tag == "broadcast" else "")
        import warnings
        with warnings.catch_warnings(), numpy.errstate(all="ignore"):
            warnings.simplefilter("ignore")
            rt = numpy.add(a1, a2).dtype
            ck.run("add", cls, lambda: p1 + p2, {(0,): numpy.add(b1, b2), (1,): numpy.add(a1, a2)}, rt, lab)
            ck.run("multiply", cls, lambda: p1 * p2,
                   {(0,): numpy.multiply(b1, b2),
                    (1,): numpy.add(numpy.multiply(a1, b2), numpy.multiply(b1, a2)),
                    (2,): numpy.multiply(a1, a2)}, numpy.multiply(a1, a2).dtype, lab)
            if d1 != "bool" and d2 != "bool":
                # keep the difference representable: (x + y) - y
                big_a, big_b = numpy.add(a1, a2).astype(d1), numpy.add(b1, b2).astype(d1)
                pb = numpoly.polynomial_from_attributes([[0], [1]], [big_b, big_a], retain_coefficients=True)
                ck.run("subtract", cls, lambda: pb - p2,
                       {(0,): numpy.subtract(big_b, b2), (1,): numpy.subtract(big_a, a2)},
                       numpy.subtract(big_a, a2).dtype, lab)
    # a result dtype requested from the functions that take `dtype=`: every term (not only the constant
    # one) is computed the way numpy computes it on the coefficient arrays
    e1, e2 = edge(d1), edge(d1)[::-1].copy()
    pe = numpoly.polynomial_from_attributes([[0], [1], [2]], [e1, e2, e1], retain_coefficients=True)
    if pe.dtype == numpy.dtype(d1):
        with warnings.catch_warnings(), numpy.errstate(all="ignore"):
            warnings.simplefilter("ignore")
            for name, npf, call in (
                    ("sum(dtype=)", lambda v: numpy.sum(v, dtype=d2), lambda: numpoly.sum(pe, dtype=d2)),
                    ("sum(axis,dtype=)", lambda v: numpy.sum(v, axis=0, dtype=d2), lambda: numpy.sum(pe, axis=0, dtype=d2)),
                    ("cumsum(dtype=)", lambda v: numpy.cumsum(v, dtype=d2), lambda: numpoly.cumsum(pe, dtype=d2)),
                    ("method-sum(dtype=)", lambda v: numpy.sum(v, dtype=d2), lambda: pe.sum(dtype=d2)),
                    ("add.reduce(dtype=)", lambda v: numpy.add.reduce(v, dtype=d2), lambda: numpy.add.reduce(pe, dtype=d2)),
            ):
                try:
                    want = {(0,): npf(e1), (1,): npf(e2), (2,): npf(e1)}
                except Exception:
                    continue
                ck.run(name, c, call, want, want[(0,)].dtype, lab)
            pm = numpoly.polynomial_from_attributes([[1]], [e1[:2]])
            try:
                want = numpy.prod(e1[:2], dtype=d2)
            except Exception:
                want = None
            if want is not None and pm.dtype == numpy.dtype(d1):
                ck.run("prod(dtype=)", c, lambda: numpoly.prod(pm, dtype=d2), {(2,): want}, want.dtype, lab)
                ck.run("method-prod(dtype=)", c, lambda: pm.prod(dtype=d2), {(2,): want}, want.dtype, lab)
            y1 = edge(d1, 1)
            m1 = numpoly.polynomial_from_attributes([[1]], [e1])
            m2 = numpoly.polynomial_from_attributes([[1]], [y1])
            try:
                want = numpy.multiply(e1, y1, dtype=d2)
            except Exception:
                want = None
            if want is not None and m1.dtype == numpy.dtype(d1) == m2.dtype:
                ck.run("multiply(dtype=)", c, lambda: numpoly.multiply(m1, m2, dtype=d2), {(2,): want}, want.dtype, lab)
                ck.run("numpy.multiply(dtype=)", c, lambda: numpy.multiply(m1, m2, dtype=d2), {(2,): want}, want.dtype, lab)
            elif want is None and m1.dtype == numpy.dtype(d1) == m2.dtype:
                # a dtype numpy refuses to cast the operands to (same_kind rule): an error, not silently
                # truncated operands - whichever internal path the exponents select
                for hi_exp in (1, 90):
                    ma = numpoly.polynomial_from_attributes([[hi_exp]], [e1])
                    ck.n += 1
                    try:
                        got = numpoly.multiply(ma, m2, dtype=d2)
                    except Exception:
                        continue
                    ck.fail("multiply(dtype=)", "accepted-unsafe-cast", c,
                            "%s: numpy.multiply refuses dtype=%s for %s operands, numpoly returned %r (exponent %d)"
                            % (lab, d2, d1, got, hi_exp))
                # ... unless the caller asks for it: casting="unsafe" gives numpy's (truncated) values
                with warnings.catch_warnings(), numpy.errstate(all="ignore"):
                    warnings.simplefilter("ignore")
                    try:
                        want = numpy.multiply(e1, y1, dtype=d2, casting="unsafe")
                    except Exception:
                        want = None
                    if want is not None:
                        ck.run("multiply(dtype=,casting=unsafe)", c,
                               lambda: numpy.multiply(m1, m2, dtype=d2, casting="unsafe"), {(2,): want}, want.dtype, lab)
            # a reduction mask keeps the accumulator type
            mask = numpy.array([True, False, True])
            try:
                want = numpy.prod(e1, where=mask)
            except Exception:
                want = None
            if want is not None and pm.dtype == numpy.dtype(d1) and d1 == d2:
                pw = numpoly.polynomial_from_attributes([[1]], [e1])
                ck.run("prod(where=)", c, lambda: numpoly.prod(pw, where=mask), {(2,): want}, want.dtype, lab)
            py = numpoly.polynomial_from_attributes([[0], [1]], [y1, e1], retain_coefficients=True)
            for name, uf in (("add(dtype=)", "add"), ("subtract(dtype=)", "subtract")):
                npf = getattr(numpy, uf)
                try:
                    want = {(0,): npf(e1, y1, dtype=d2), (1,): npf(e2, e1, dtype=d2), (2,): npf(e1, numpy.zeros_like(e1), dtype=d2)}
                except Exception:
                    continue
                if py.dtype == numpy.dtype(d1):
                    ck.run(name, c, lambda: getattr(numpoly, uf)(pe, py, dtype=d2), want, want[(0,)].dtype, lab)
    # the exponent's dtype takes part in the promotion like in numpy.power (arrays and numpy scalars)
    if numpy.dtype(d2).kind in "iu" and d1 != "bool":
        base = edge(d1)[::-1].copy()
        pb = numpoly.polynomial_from_attributes([[1]], [base])
        ex = numpy.array([0, 1, 2], dtype=d2)
        if pb.dtype == numpy.dtype(d1):
            with warnings.catch_warnings(), numpy.errstate(all="ignore"):
                warnings.simplefilter("ignore")
                full = numpy.power(base, ex)
                want = {(k,): numpy.where(ex == k, full, 0).astype(full.dtype) for k in (0, 1, 2)}
                ck.run("power(exponent-array-dtype)", c, lambda: pb ** ex, want, full.dtype, lab)
                sc = numpy.power(base, ex[2])
                ck.run("power(exponent-scalar-dtype)", c, lambda: pb ** ex[2], {(2,): sc}, sc.dtype, lab)
    if d1 == d2:
        a1 = data(d1, (3,), 1)
        p = numpoly.polynomial_from_attributes([[1]], [a1])
        if p.dtype == numpy.dtype(d1):
            import warnings
            with warnings.catch_warnings(), numpy.errstate(all="ignore"):
                warnings.simplefilter("ignore")
                ck.run("power", c, lambda: p ** 2, {(2,): numpy.multiply(a1, a1)}, numpy.multiply(a1, a1).dtype, lab)
                ck.run("power-array", c, lambda: p ** numpy.array([0, 1, 2]),
                       {(0,): numpy.array([1, 0, 0]).astype(d1), (1,): numpy.where([0, 1, 0], a1, 0).astype(d1),
                        (2,): numpy.where([0, 0, 1], numpy.multiply(a1, a1), 0).astype(d1)}, None, lab)


def check_many_coinciding(ck):
    """256 and more term products landing on one monomial: sums must not wrap in a narrow accumulator."""
    numpoly = ck.numpoly
    rows = [[i, j] for i in range(16) for j in range(16)]
    for d, one, total in (("bool", True, True), ("uint8", 1, 0), ("int8", 1, 0), ("int64", 1, 256), ("float64", 1.0, 256.0)):
        p = numpoly.polynomial_from_attributes(rows, [numpy.array(one, dtype=d)] * len(rows))
        if p.dtype != numpy.dtype(d):
            continue
        # coefficient of q0**15*q1**15 in p*p: 256 products of ones, accumulated in dtype d like numpy does
        with warnings.catch_warnings(), numpy.errstate(all="ignore"):
            warnings.simplefilter("ignore")
            want = numpy.add.reduce(numpy.full(256, one, dtype=d), dtype=d)
        hooks.poison(False)
        try:
            z = p * p
            got = {tuple(e): c for e, c in zip(z.exponents.tolist(), z.coefficients)}.get((15, 15))
            got = numpy.zeros((), dtype=d) if got is None else numpy.asarray(got)
        except Exception as err:
            ck.fail("multiply(256 coinciding products)", "exception:" + type(err).__name__, cls_of(d), repr(err))
            continue
        ck.n += 1
        if got.dtype != numpy.dtype(d) or got != want:
            ck.fail("multiply(256 coinciding products)", "value", cls_of(d),
                    "%s: coefficient of q0**15*q1**15 in (sum of 256 monomials)**2 is %r, expected %r" % (d, got, want))


def check_zero_terms(ck):
    numpoly = ck.numpoly
    q0, q1 = numpoly.variable(2)
    arr = numpoly.polynomial([q0, q1 * q0, 3])
    z3 = numpy.zeros(3, dtype=int)
    ck.run("a-a", "zero-terms", lambda: arr - arr, {(0, 0): z3}, None)
    ck.run("set_dimensions-drop-all", "zero-terms", lambda: numpoly.set_dimensions(numpoly.polynomial([q1, q0 * q1]), 1),
           {(0,): numpy.zeros(2, dtype=int)}, None)
    ck.run("derivative-of-constant", "zero-terms", lambda: numpoly.derivative(numpoly.polynomial([1, 2, 3]), 0),
           {(0,): z3}, None)
    ck.run("multiply-by-zero", "zero-terms", lambda: arr * 0, {(0, 0): z3}, None)
    ck.run("where-all-false", "zero-terms", lambda: numpoly.where([False] * 3, arr, 0), {(0, 0): z3}, None)
    f = numpoly.polynomial([1.5 * q0, q1])
    ck.run("float a-a", "zero-terms", lambda: f - f, {(0, 0): numpy.zeros(2)}, "float64")
    # exponents without any coefficient: an error, or zeros - never memory nobody wrote
    for name, fn in (("polynomial_from_attributes(exponents, [])", lambda: numpoly.polynomial_from_attributes([[1], [2], [3]], [])),
                     ("ndpoly.from_attributes(exponents, [])", lambda: numpoly.ndpoly.from_attributes([[1], [2]], []))):
        ck.n += 1
        hooks.poison(True)
        try:
            r = fn()
        except Exception:
            hooks.poison(False)
            continue
        hooks.poison(False)
        try:
            if hooks.poly_has_poison(r):
                ck.fail(name, "poison", "zero-terms", "coefficients that were never written (0xA5 pattern) are returned")
        except Exception as err:
            ck.fail(name, "poison-scan", "zero-terms", repr(err))
    # size-0 class (known finding, own key)
    for name, fn, shape in (("empty-slice", lambda: arr[3:], (0,)),
                            ("polynomial([])", lambda: numpoly.polynomial([]), (0,)),
                            ("diff-size-1", lambda: numpoly.diff(arr[:1]), (0,)),
                            ("pickle-empty", lambda: pickle.loads(pickle.dumps(arr[3:])), (0,))):
        ck.n += 1
        hooks.poison(True)
        try:
            r = fn()
            hooks.poison(False)
            if tuple(r.shape) != shape:
                ck.fail("size-0", "shape", "empty-result", "%s: shape %s expected %s" % (name, r.shape, shape))
        except Exception as err:
            hooks.poison(False)
            ck.fail("size-0", "exception", "empty-result", "%s: %r" % (name, err))


def check_random(case, ck):
    numpoly = ck.numpoly
    d1, d2 = case["random"]
    s1, s2 = (tuple(s) for s in case["shapes"])
    r1, r2 = case["rows"]
    o1, o2 = case["offsets"]
    op = case["op"]
    names = ("q0", "q1")
    c1 = [data(d1, s1, o1 + i) for i in range(len(r1))]
    c2 = [data(d2, s2, o2 + i) for i in range(len(r2))]
    p1 = numpoly.polynomial_from_attributes(r1, c1, names, retain_coefficients=True, retain_names=True)
    p2 = numpoly.polynomial_from_attributes(r2, c2, names, retain_coefficients=True, retain_names=True)
    if p1.dtype != numpy.dtype(d1) or p2.dtype != numpy.dtype(d2):
        ck.fail("polynomial_from_attributes", "dtype", cls_of(d1, d2), "constructed dtype %s/%s" % (p1.dtype, p2.dtype))
        return
    cls = cls_of(d1, d2) + (",broadcast" if s1 != s2 else "")
    import warnings
    with warnings.catch_warnings(), numpy.errstate(all="ignore"):
        warnings.simplefilter("ignore")
        if op == "add" or (op == "sub" and ("bool" in (d1, d2) or d1.startswith("u") or d2.startswith("u"))):
            exp = {}
            for r, c in zip(r1, c1):
                exp[tuple(r)] = c
            for r, c in zip(r2, c2):
                exp[tuple(r)] = numpy.add(exp[tuple(r)], c) if tuple(r) in exp else c
            shape = numpy.broadcast_shapes(s1, s2)
            rt = numpy.add(c1[0], c2[0]).dtype
            exp = {k: numpy.broadcast_to(v, shape).astype(rt) for k, v in exp.items()}
            ck.run("add", cls, lambda: p1 + p2, exp, rt, "%s+%s" % (d1, d2))
        elif op == "sub":
            exp = {}
            for r, c in zip(r1, c1):
                exp[tuple(r)] = c
            rt = numpy.subtract(c1[0], c2[0]).dtype
            for r, c in zip(r2, c2):
                exp[tuple(r)] = numpy.subtract(exp[tuple(r)], c) if tuple(r) in exp else numpy.negative(c.astype(rt))
            shape = numpy.broadcast_shapes(s1, s2)
            exp = {k: numpy.broadcast_to(v, shape).astype(rt) for k, v in exp.items()}
            ck.run("subtract", cls, lambda: p1 - p2, exp, rt, "%s-%s" % (d1, d2))
        elif op == "mul":
            exp = {}
            for ra, ca in zip(r1, c1):
                for rb, cb in zip(r2, c2):
                    k = (ra[0] + rb[0], ra[1] + rb[1])
                    prod = numpy.multiply(ca, cb)
                    exp[k] = numpy.add(exp[k], prod) if k in exp else prod
            rt = numpy.multiply(c1[0], c2[0]).dtype
            ck.run("multiply", cls, lambda: p1 * p2, {k: v.astype(rt) for k, v in exp.items()}, rt, "%s*%s" % (d1, d2))
        else:
            k = 2
            if len(r1) == 1:
                a = c1[0]
                ck.run("power", cls_of(d1), lambda: p1 ** k,
                       {(r1[0][0] * k, r1[0][1] * k): numpy.multiply(a, a)}, numpy.multiply(a, a).dtype, "%s**2" % d1)


def check_python_ints(ck):
    """Python integers (alone, in lists, next to polynomials) are taken in like numpy.array takes them in - also
    those between 2**63 and 2**64, which numpy stores as uint64."""
    numpoly = ck.numpoly
    for v in (2 ** 63 + 5, 2 ** 64 - 1, 2 ** 63 - 1, -2 ** 63, 2 ** 40):
        for label, make, ref in (
                ("polynomial(int)", lambda: numpoly.polynomial(v), lambda: numpy.array(v)),
                ("polynomial([int])", lambda: numpoly.polynomial([v]), lambda: numpy.array([v])),
                ("polynomial([[int, 1]])", lambda: numpoly.polynomial([[v, 1]]), lambda: numpy.array([[v, 1]])),
                ("aspolynomial([int])", lambda: numpoly.aspolynomial([v]), lambda: numpy.array([v])),
                ("sum([int, 1])", lambda: numpoly.sum([v, 0]), lambda: numpy.sum([v, 0]))):
            want = ref()
            ck.run(label, "python-int", make, {(0,): want}, want.dtype, "%s with %d" % (label, v))
    # coefficient lists with a requested dtype are cast like numpy.array(list, dtype=) casts them: directly
    for lst, d in (([2 ** 63 - 1, 2 ** 63], "uint64"), ([2 ** 53 + 1, 3], "int64"), ([2 ** 53 + 1, 3], "uint64")):
        want = numpy.array(lst, dtype=d)
        ck.run("polynomial_from_attributes(list,dtype)", "python-int",
               lambda: numpoly.polynomial_from_attributes([(0,), (1,)], [lst, lst], dtype=d), {(0,): want, (1,): want}, d, str(lst))
        ck.run("polynomial(dict-of-lists,dtype)", "python-int",
               lambda: numpoly.polynomial({(0,): lst, (2,): lst}, dtype=d), {(0,): want, (2,): want}, d, str(lst))


def check_case(case, ctx):
    ck = Checker(ctx)
    if "single" in case:
        check_single(case["single"], ck)
        ctx.label("enumerated:single-dtype")
        nt = case["single"] not in NATIVE
    elif "pair" in case:
        check_pair(case["pair"][0], case["pair"][1], ck)
        ctx.label("enumerated:dtype-pair")
        nt = not (set(case["pair"]) <= NATIVE) or case["pair"][0] != case["pair"][1]
    elif "zero_terms" in case:
        check_zero_terms(ck)
        ctx.label("enumerated:zero-terms")
        nt = True
    elif "many_coinciding" in case:
        check_many_coinciding(ck)
        ctx.label("enumerated:many-coinciding-products")
        nt = True
    elif "python_ints" in case:
        check_python_ints(ck)
        ctx.label("enumerated:python-ints")
        nt = True
    else:
        check_random(case, ck)
        d1, d2 = case["random"]
        ctx.label("random:" + case["op"])
        if tuple(case["shapes"][0]) != tuple(case["shapes"][1]):
            ctx.label("random:broadcast")
        ctx.nontrivial(d1 != d2 or d1 not in NATIVE)
        return ck.fails
    ctx.add_evals(ck.n, ck.n if nt else 0)
    return ck.fails
