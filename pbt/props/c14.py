"""C14 Global options are scoped, restored on every exit path, updated atomically."""
import itertools

from hypothesis import strategies as st

from ..core import Failure

ID = "C14"
BUDGET = {"quick": 1500, "thorough": 6000}
NO_SHRINK = False
EXHAUSTIVE = False
EXHAUSTIVE_PARTS = (
    "all valid action sequences of length 5 (quick) / 7 (thorough) over the 12-action alphabet "
    "are enumerated completely (every prefix is checked after every step); the random part "
    "(arbitrary option values, up to 40 steps) is sampled; the thorough tier additionally runs a Hypothesis "
    "RuleBasedStateMachine (300 machines x 40 steps per worker) over the same alphabet"
)
TECHNIQUE = 'bounded-exhaustive enumeration of option-call histories + Hypothesis-generated action lists vs a stack model'
LEVEL_TEXT = 'All valid histories of 5 (quick) / 7 (thorough) actions over a 12-action alphabet are enumerated and compared with a stack model after every step; longer histories with arbitrary option values are sampled.'
RULE = (
    "histories over the alphabet {enter global_options with one flag / two keys / no kwargs / "
    "valid+unknown key; exit innermost block normally / by Exception / by a BaseException subclass; "
    "set_options with one key / two keys / valid+unknown key; mutate a dict returned by get_options(); "
    "mutate the dict yielded by the innermost with}: (a) bounded-exhaustive enumeration of all valid "
    "sequences of fixed length, (b) Hypothesis-generated action lists up to 40 steps with arbitrary "
    "option names/values. Blocks are driven through __enter__/__exit__ with a really raised exception. "
    "Oracle: stack model compared with get_options() after EVERY step, get_options(defaults=True) "
    "against the start-up snapshot, KeyError-and-no-change for unknown names, full restore after "
    "unwinding. non-trivial = nesting depth >= 2 and (an exceptional exit or a set_options inside a "
    "block); distinct = enumerated sequences are distinct by construction, generated ones by case hash."
)
ASSUMPTIONS = [
    "single-threaded use (the option store is one process-global dict; concurrency is not in the property)",
    "with-blocks are LIFO, as the with statement guarantees",
]

# fixed action alphabet for the enumeration
ALPHABET = [
    ("enter", {"sort_graded": False}),
    ("enter", {"retain_names": False, "display_exponent": "^"}),
    ("enter", {}),
    ("enter_bad", {"sort_reverse": True, "no_such_option": 1}),
    ("exit", None),
    ("exit_exc", None),
    ("exit_base", None),
    ("set", {"retain_coefficients": True}),
    ("set", {"sort_graded": "S", "display_multiply": "."}),
    ("set_bad", {"display_graded": False, "no_such_option": 1}),
    ("mutate_get", None),
    ("mutate_yield", None),
]
NEEDS_BLOCK = {"exit", "exit_exc", "exit_base", "mutate_yield"}


class Boom(Exception):
    pass


class BaseBoom(BaseException):
    pass


def run_sequence(seq, ctx=None):
    """Execute a history against numpoly and the stack model.

    Returns None or (kind, step_index, message).
    """
    import numpoly

    from .. import hooks
    # the shipped defaults as recorded (by value) when the worker started: an independent snapshot,
    # so that a get_options(defaults=True) that hands out the live defaults dict is noticed
    defaults = dict(hooks._DEFAULTS) or dict(numpoly.get_options(defaults=True))
    initial = numpoly.get_options()
    current = dict(initial)
    stack = []   # (saved options, cm, yielded)
    maxdepth = 0
    special = False
    outer_set = False  # a set_options outside every block legitimately persists

    def verify(i, what):
        got = numpoly.get_options()
        if got != current:
            diff = {k: (got.get(k), current.get(k)) for k in set(got) | set(current)
                    if got.get(k, "<absent>") != current.get(k, "<absent>")}
            return ("state-mismatch:" + what, i, "options differ from model (got, expected): %r" % (diff,))
        if numpoly.get_options(defaults=True) != defaults:
            return ("defaults-changed:" + what, i, "get_options(defaults=True) changed")
        if got is numpoly.get_options():
            return ("not-detached:" + what, i, "get_options() returned the same object twice")
        return None

    for i, (act, kw) in enumerate(seq):
        if act in NEEDS_BLOCK and not stack:
            continue  # no-op (only reachable from generated lists)
        if act in ("enter", "enter_bad"):
            bad = any(k not in current for k in kw)
            entered = False
            try:
                cm = numpoly.global_options(**kw)
                y = cm.__enter__()
                entered = True
            except KeyError:
                if not bad:
                    return ("unexpected-KeyError:enter", i, "valid options %r rejected" % (kw,))
            except Exception as err:
                return ("exception:%s:enter" % type(err).__name__, i, repr(err))
            if bad and entered:
                # leave it again so that the state is sane, then report
                return ("unknown-option-accepted:enter", i, "global_options(%r) entered without KeyError" % (kw,))
            if entered:
                stack.append((dict(current), cm, y))
                current.update(kw)
                maxdepth = max(maxdepth, len(stack))
                if isinstance(y, dict) and y != current:
                    return ("yielded-dict-wrong:enter", i, "with-block yielded %r" % (y,))
        elif act in ("exit", "exit_exc", "exit_base"):
            saved, cm, y = stack.pop()
            try:
                if act == "exit":
                    res = cm.__exit__(None, None, None)
                else:
                    exc_type = Boom if act == "exit_exc" else BaseBoom
                    try:
                        raise exc_type("inside block")
                    except exc_type as err:
                        res = cm.__exit__(type(err), err, err.__traceback__)
                    if res:
                        return ("exception-suppressed:" + act, i, "__exit__ returned %r" % (res,))
                    if len(stack) + 1 >= 2:
                        special = True
            except (Boom, BaseBoom):
                pass  # re-raising the same exception is also a legal way not to suppress
            except Exception as err:
                return ("exception:%s:%s" % (type(err).__name__, act), i, repr(err))
            current = saved
        elif act in ("set", "set_bad"):
            bad = any(k not in current for k in kw)
            try:
                numpoly.set_options(**kw)
                if bad:
                    return ("unknown-option-accepted:set", i, "set_options(%r) did not raise" % (kw,))
                current.update(kw)
                if stack:
                    special = True
                else:
                    outer_set = True
            except KeyError:
                if not bad:
                    return ("unexpected-KeyError:set", i, "valid options %r rejected" % (kw,))
            except Exception as err:
                return ("exception:%s:set" % type(err).__name__, i, repr(err))
        elif act == "mutate_get":
            d = numpoly.get_options()
            d["sort_graded"] = "mutated-by-caller"
            d["brand_new_key"] = 1
            dd = numpoly.get_options(defaults=True)
            dd["retain_names"] = "mutated-by-caller"
            dd.pop("sort_reverse", None)
        elif act == "mutate_yield":
            y = stack[-1][2]
            if isinstance(y, dict):
                y["display_graded"] = "mutated-by-caller"
                y["brand_new_key"] = 1
        bad = verify(i, act)
        if bad:
            return bad
    # unwind
    n = len(seq)
    while stack:
        saved, cm, y = stack.pop()
        try:
            cm.__exit__(None, None, None)
        except Exception as err:
            return ("exception:%s:unwind" % type(err).__name__, n, repr(err))
        current = saved
        bad = verify(n, "unwind")
        if bad:
            return bad
    if not outer_set and numpoly.get_options() != initial:
        return ("not-restored:end", n, "options after unwinding differ from those before the history")
    if ctx is not None:
        return None, (maxdepth >= 2 and special)
    return None


def valid_sequences(prefix, depth):
    """All sequences of exactly `depth` actions (indices) extending prefix, with exits only inside blocks."""
    def depth_after(seq):
        d = 0
        for a in seq:
            act = ALPHABET[a][0]
            if act in NEEDS_BLOCK and d == 0:
                return None
            if act == "enter":
                d += 1
            elif act in ("exit", "exit_exc", "exit_base"):
                d -= 1
        return d

    d0 = depth_after(prefix)
    if d0 is None:
        return

    def rec(seq, d):
        if len(seq) == depth:
            yield seq
            return
        for a, (act, _) in enumerate(ALPHABET):
            if act in NEEDS_BLOCK and d == 0:
                continue
            nd = d + (1 if act == "enter" else (-1 if act in ("exit", "exit_exc", "exit_base") else 0))
            yield from rec(seq + [a], nd)

    yield from rec(list(prefix), d0)


def enumerate_cases(tier):
    depth = 5 if tier == "quick" else 7
    for a, b in itertools.product(range(len(ALPHABET)), repeat=2):
        yield {"enum_prefix": [a, b], "depth": depth}


OPTION_NAMES = [
    "default_varname", "display_graded", "display_reverse", "display_inverse",
    "display_exponent", "display_multiply", "force_number_suffix", "retain_names",
    "retain_coefficients", "sort_graded", "sort_reverse", "varname_filter",
]
VALUE = st.one_of(st.booleans(), st.sampled_from(["^", "**", "*", "", "q", "x", r"q\d+", ".+"]),
                  st.none(), st.integers(-2, 2))


def kwargs_st(bad=False):
    base = st.dictionaries(st.sampled_from(OPTION_NAMES), VALUE, min_size=0, max_size=3)
    if not bad:
        return base
    return st.tuples(base, st.sampled_from(["no_such_option", "sort_grade", "Retain_names", "defaults"]),
                     VALUE).map(lambda t: dict(list(t[0].items()) + [(t[1], t[2])]))


def full_kwargs_st(bad=False):
    """A complete option dict written back (the 'read, tweak, apply' idiom), optionally with a misspelt key."""
    base = st.fixed_dictionaries({k: VALUE for k in OPTION_NAMES})
    if not bad:
        return base
    return st.tuples(base, st.sampled_from(["no_such_option", "sort_grade", "Retain_names"]), VALUE).map(
        lambda t: dict(list(t[0].items()) + [(t[1], t[2])]))


ACTION = st.one_of(
    st.tuples(st.just("set"), full_kwargs_st()),
    st.tuples(st.just("set_bad"), full_kwargs_st(True)),
    st.tuples(st.just("enter_bad"), full_kwargs_st(True)),
    st.tuples(st.just("enter"), full_kwargs_st()),
    st.tuples(st.just("enter"), kwargs_st()),
    st.tuples(st.just("enter"), kwargs_st()),
    st.tuples(st.just("enter_bad"), kwargs_st(True)),
    st.tuples(st.sampled_from(["exit", "exit", "exit_exc", "exit_base"]), st.none()),
    st.tuples(st.just("set"), kwargs_st()),
    st.tuples(st.just("set_bad"), kwargs_st(True)),
    st.tuples(st.sampled_from(["mutate_get", "mutate_yield"]), st.none()),
).map(list)


def strategy(tier):
    return st.lists(ACTION, min_size=1, max_size=40).map(lambda s: {"seq": s})


def check_case(case, ctx):
    fails = []
    if "enum_prefix" in case:
        n = nt = 0
        for seq in valid_sequences(case["enum_prefix"], case["depth"]):
            actions = [ALPHABET[a] for a in seq]
            res = run_sequence(actions, ctx)
            n += 1
            if isinstance(res, tuple) and res[0] is None:
                nt += bool(res[1])
                continue
            kind, step, msg = res
            if not fails:
                minimal = [[ALPHABET[a][0], ALPHABET[a][1]] for a in seq[: step + 1]]
                fails.append(Failure("options:" + kind, "step %d of %r: %s" % (step, minimal, msg),
                                     case={"seq": minimal}))
            # restore a sane state for the following sequences
            import numpoly
            from .. import hooks
            hooks.reset_case(numpoly)
        ctx.add_evals(n, nt)
        ctx.label("enumerated-chunk")
        ctx.discard_case(None)
        return fails
    seq = [(a, (dict(k) if k else ({} if a in ("enter", "set") else k))) for a, k in case["seq"]]
    res = run_sequence(seq, ctx)
    if isinstance(res, tuple) and res[0] is None:
        ctx.nontrivial(res[1])
        acts = {a for a, _ in seq}
        for a in acts:
            ctx.label("has:" + a)
        if len(seq) >= 10:
            ctx.label("len>=10")
        return []
    kind, step, msg = res
    return [Failure("options:" + kind, "step %d: %s" % (step, msg))]


# ------------------------------------------------------------------ stateful machine (thorough tier)

def run_extra(worker):
    """Hypothesis RuleBasedStateMachine over the real option store and the stack model.

    Rules are the same actions with generated option names/values; the invariant compares
    numpoly.get_options() with the model after every step.  A failing run is shrunk by Hypothesis
    as one value; its step list is turned into a plain {"seq": [...]} replay case.
    """
    if worker.tier != "thorough":
        return
    import hypothesis
    from hypothesis import settings, Phase, HealthCheck
    from hypothesis.stateful import RuleBasedStateMachine, rule, invariant, precondition, run_state_machine_as_test
    import numpoly
    from .. import hooks

    stats = {"steps": 0, "machines": 0, "nontrivial": 0}
    found = {}

    class OptionMachine(RuleBasedStateMachine):
        def __init__(self):
            super().__init__()
            hooks.reset_case(numpoly)
            self.defaults = dict(hooks._DEFAULTS)
            self.current = dict(numpoly.get_options())
            self.stack = []
            self.log = []
            self.maxdepth = 0
            self.special = False
            stats["machines"] += 1

        def _record(self, act, kw):
            self.log.append([act, kw])
            stats["steps"] += 1

        @rule(kw=kwargs_st())
        def enter(self, kw):
            self._record("enter", kw)
            cm = numpoly.global_options(**kw)
            y = cm.__enter__()
            self.stack.append((dict(self.current), cm, y))
            self.current.update(kw)
            self.maxdepth = max(self.maxdepth, len(self.stack))

        @rule(kw=st.one_of(kwargs_st(True), full_kwargs_st(True)))
        def enter_bad(self, kw):
            self._record("enter_bad", kw)
            try:
                cm = numpoly.global_options(**kw)
                cm.__enter__()
            except KeyError:
                return
            raise AssertionError("unknown-option-accepted:enter")

        @precondition(lambda self: self.stack)
        @rule(how=st.sampled_from(["exit", "exit_exc", "exit_base"]))
        def leave(self, how):
            self._record(how, None)
            saved, cm, _ = self.stack.pop()
            if how == "exit":
                cm.__exit__(None, None, None)
            else:
                exc_type = Boom if how == "exit_exc" else BaseBoom
                try:
                    raise exc_type("inside block")
                except exc_type as err:
                    try:
                        res = cm.__exit__(type(err), err, err.__traceback__)
                    except exc_type:
                        res = False
                assert not res, "exception-suppressed:" + how
                if len(self.stack) >= 1:
                    self.special = True
            self.current = saved

        @rule(kw=kwargs_st())
        def set_valid(self, kw):
            self._record("set", kw)
            numpoly.set_options(**kw)
            self.current.update(kw)
            if self.stack:
                self.special = True

        @rule(kw=st.one_of(kwargs_st(True), full_kwargs_st(True)))
        def set_bad(self, kw):
            self._record("set_bad", kw)
            try:
                numpoly.set_options(**kw)
            except KeyError:
                return
            raise AssertionError("unknown-option-accepted:set")

        @rule()
        def mutate_get(self):
            self._record("mutate_get", None)
            d = numpoly.get_options()
            d["sort_graded"] = "mutated-by-caller"
            numpoly.get_options(defaults=True)["retain_names"] = "mutated-by-caller"

        @precondition(lambda self: self.stack)
        @rule()
        def mutate_yield(self):
            self._record("mutate_yield", None)
            y = self.stack[-1][2]
            if isinstance(y, dict):
                y["display_graded"] = "mutated-by-caller"

        @invariant()
        def agrees(self):
            assert numpoly.get_options() == self.current, "state-mismatch"
            assert numpoly.get_options(defaults=True) == self.defaults, "defaults-changed"

        def teardown(self):
            while self.stack:
                saved, cm, _ = self.stack.pop()
                try:
                    cm.__exit__(None, None, None)
                except Exception:
                    pass
            if self.maxdepth >= 2 and self.special:
                stats["nontrivial"] += 1
            found["last_log"] = list(self.log)
            hooks.reset_case(numpoly)

    machine = hypothesis.seed(worker.seed * 1000 + worker.shard)(OptionMachine)
    sett = settings(max_examples=300, stateful_step_count=40, deadline=None, database=None,
                    suppress_health_check=list(HealthCheck))
    try:
        run_state_machine_as_test(machine, settings=sett)
    except AssertionError as err:
        kind = str(err).split("\n")[0][:60] or "assertion"
        worker.failures.setdefault("options:stateful:" + kind.split(":")[0], {
            "count": 1, "case": {"seq": found.get("last_log", [])},
            "message": "stateful machine: %s; shrunk history: %r" % (kind, found.get("last_log"))})
    except Exception as err:
        worker.failures.setdefault("options:stateful:exception:" + type(err).__name__, {
            "count": 1, "case": {"seq": found.get("last_log", [])}, "message": repr(err)})
    worker.ctx.add_evals(stats["machines"], stats["nontrivial"])
    worker.ctx.labels["stateful-machines"] += stats["machines"]
    worker.ctx.labels["stateful-steps"] += stats["steps"]
