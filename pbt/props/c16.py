"""C16 str/repr (and sympy export) denote exactly the polynomial."""
import re
from fractions import Fraction

import numpy
from hypothesis import strategies as st

from .. import gen
from ..conv import build_checked, to_model, MalformedPoly, var_index
from ..core import Failure
from ..model import MP, GQ, cval, order_key, expvec, mp_close, first_diff

ID = "C16"
BUDGET = {"quick": 1500, "thorough": 12000}
TECHNIQUE = ("Hypothesis-generated polynomial arrays x display option settings: an independent recursive-descent "
             "parser reads str(p)/repr(p) back over the exact model (round-trip oracle) and checks the printed term "
             "order against the reference monomial order; to_sympy -> polynomial round-trip for 0-d polynomials")
LEVEL_TEXT = ("The text of str(p) and repr(p) is tokenised on the brackets/separators numpy.array2string emits and every "
              "element is parsed as a sum of signed terms [coefficient][*]name[**exp]... by a parser that shares no code "
              "with numpoly; the parsed value must equal the model of p, the printed monomials must be strictly monotone "
              "in the selected display order (flipping with display_inverse), for all 8 display_graded/reverse/inverse "
              "settings, exponent signs ** and ^, multiply signs '*', '' and ' '; 0-d int/float polynomials must survive "
              "polynomial(to_sympy(p)).")
RULE = (
    "polynomial arrays 0-2-d (sizes well below numpy's summarisation threshold), 1-4 names from q0..q12, 0-6 terms, "
    "coefficients int / float (incl. 1e-20, 1e+20, 0.1) / complex (all sign combinations) / bool, +-1 coefficients and "
    "negative leading terms x the 8 display_graded/display_reverse/display_inverse settings x display_exponent in "
    "{**, ^} x display_multiply in {*, '', ' ' (0-d and repr only)}. Oracle: parse(str(p)) and parse(repr(p)) == model(p) "
    "(floats equal after casting to p.dtype); printed monomials strictly monotone in the selected order and reversed by "
    "display_inverse; polynomial(to_sympy(p)) model-equal (1e-12) for 0-d int/float p under every display setting. "
    "non-trivial = >= 3 printed terms of which two share a total degree, or a coefficient in {-1, +1, complex, negative float}."
)
LEVEL_TEXT += (" The sympy round trip runs under every generated display setting (exponent and multiplication signs included).")
ASSUMPTIONS = [
    "which direction display_inverse prints is not asserted, only that it reverses the order",
    "the whitespace multiply sign is only used for 0-d polynomials and repr (str separates elements by whitespace)",
]


class ParseError(Exception):
    pass


NUM_RE = re.compile(r"\((?:[^()]*)\)|(?:[0-9]+\.?[0-9]*(?:e[+-]?[0-9]+)?|\.[0-9]+(?:e[+-]?[0-9]+)?)j?|True|False")
NAME_RE = re.compile(r"q(\d+)")
INT_RE = re.compile(r"\d+")


def parse_number(tok):
    if tok in ("True", "False"):
        return int(tok == "True")
    if tok.startswith("("):
        return cval(complex(tok[1:-1].replace(" ", "")))
    if tok.endswith("j"):
        return cval(complex(tok))
    try:
        return int(tok)
    except ValueError:
        return cval(float(tok))


def parse_element(text, mul="*", pw="**"):
    """One printed polynomial -> (MP, list of monomial keys in printed order)."""
    s = text.strip()
    if not s:
        raise ParseError("empty element")
    pos = 0
    first = True
    d = {}
    order = []
    while pos < len(s):
        sign = 1
        if s[pos] == "+":
            if first:
                raise ParseError("leading + in %r" % s)
            pos += 1
        elif s[pos] == "-":
            sign = -1
            pos += 1
        elif not first:
            raise ParseError("missing operator at %d in %r" % (pos, s))
        first = False
        coef = None
        if not NAME_RE.match(s, pos):
            m = NUM_RE.match(s, pos)
            if not m:
                raise ParseError("expected number or name at %d in %r" % (pos, s))
            coef = parse_number(m.group(0))
            pos = m.end()
        mono = {}
        need_mul = coef is not None
        while pos < len(s) and s[pos] not in "+-":
            if need_mul:
                if mul:
                    if not s.startswith(mul, pos):
                        raise ParseError("expected %r at %d in %r" % (mul, pos, s))
                    pos += len(mul)
            m = NAME_RE.match(s, pos)
            if not m:
                raise ParseError("expected indeterminate at %d in %r" % (pos, s))
            n = int(m.group(1))
            pos = m.end()
            e = 1
            if s.startswith(pw, pos):
                pos += len(pw)
                m2 = INT_RE.match(s, pos)
                if not m2:
                    raise ParseError("expected exponent at %d in %r" % (pos, s))
                e = int(m2.group(0))
                pos = m2.end()
            if n in mono:
                raise ParseError("indeterminate q%d twice in one term of %r" % (n, s))
            mono[n] = e
            need_mul = True
        if coef is None:
            coef = 1
        key = tuple(sorted(mono.items()))
        if key in d:
            raise ParseError("monomial printed twice in %r" % s)
        d[key] = coef * sign
        order.append(key)
    return MP(d), order


def split_elements(text, kind, mul):
    """Element strings of str()/repr() output in C order, plus the nesting shape."""
    t = text.strip()
    if kind == "repr":
        if not (t.startswith("polynomial(") and t.endswith(")")):
            raise ParseError("repr does not look like polynomial(...): %r" % t[:60])
        t = t[len("polynomial("):-1]
    if not t.startswith("["):
        return [t], ()
    elems = []
    shape = []
    depth = 0
    counts = {}
    buf = ""

    def flush():
        nonlocal buf
        b = buf.strip()
        buf = ""
        if not b:
            return
        if kind == "repr":
            parts = [x.strip() for x in b.split(",")]
        else:
            parts = b.split()
        for x in parts:
            if x:
                elems.append(x)

    for ch in t:
        if ch == "[":
            flush()
            depth += 1
        elif ch == "]":
            flush()
            depth -= 1
        else:
            buf += ch
    flush()
    # shape from bracket structure
    def nest(s):
        stack = [[]]
        for ch in s:
            if ch == "[":
                new = []
                stack[-1].append(new)
                stack.append(new)
            elif ch == "]":
                stack.pop()
        return stack[0][0]

    def shp(x, n):
        if not x:
            return (n,)
        return (len(x),) + shp(x[0], 0) if isinstance(x[0], list) else (len(x),)

    tree = nest(t)
    dims = []
    node = tree
    while isinstance(node, list) and node and isinstance(node[0], list):
        dims.append(len(node))
        node = node[0]
    total = 1
    for dd in dims:
        total *= dd
    if total and len(elems) % total == 0:
        dims.append(len(elems) // total)
    return elems, tuple(dims)


def float_coef(kind_spec):
    return st.sampled_from([0.5, -0.5, 1.0, -1.0, 2.5, -3.25, 1e-20, -1e-20, 1e20, 0.1, -0.3, 1234.5678, 0.0, 0.0])


@st.composite
def case_st(draw):
    names = draw(gen.names_st(max_size=4, pool=["q0", "q1", "q2", "q3", "q7", "q10", "q12"]))
    shape = draw(st.sampled_from([(), (), (), (1,), (2,), (3,), (2, 2), (1, 3), (3, 1), (2, 3)]))
    kind = draw(st.sampled_from(["i", "i", "f", "f", "c", "b"]))
    size = gen.size_of(shape)
    nterms = draw(st.integers(0, 6))
    rows = draw(st.lists(st.lists(st.integers(0, 3), min_size=len(names), max_size=len(names)),
                         min_size=nterms, max_size=nterms, unique_by=tuple))
    if rows and draw(st.booleans()):
        # several terms of one total degree
        deg = sum(rows[0])
        extra = draw(st.lists(st.lists(st.integers(0, 3), min_size=len(names), max_size=len(names)), max_size=3))
        for r in extra:
            if sum(r) == deg and r not in rows:
                rows.append(r)
    terms = []
    for row in rows:
        if kind == "i":
            cs = draw(st.lists(st.sampled_from([0, 1, -1, 2, -2, 3, -7, 10, 1, -1]), min_size=size, max_size=size))
        elif kind == "f":
            cs = draw(st.lists(float_coef(None), min_size=size, max_size=size))
        elif kind == "c":
            cs = draw(st.lists(st.tuples(st.sampled_from([0, 1, -1, 2, -2.5, 0.5]),
                                         st.sampled_from([0, 1, -1, 2, -0.5, 3])).map(list),
                               min_size=size, max_size=size))
        else:
            cs = draw(st.lists(st.sampled_from([0, 1, 1]), min_size=size, max_size=size))
        terms.append([row, cs])
    opts = {"display_graded": draw(st.booleans()), "display_reverse": draw(st.booleans()),
            "display_inverse": draw(st.booleans())}
    opts["display_exponent"] = draw(st.sampled_from(["**", "**", "^"]))
    opts["display_multiply"] = draw(st.sampled_from(["*", "*", "", " "]))
    return {"names": names, "shape": list(shape), "kind": kind, "terms": terms, "opts": opts}


def strategy(tier):
    return case_st()


DT = {"i": "int64", "f": "float64", "c": "complex128", "b": "bool"}


def build(case):
    import numpoly

    shape = tuple(case["shape"])
    dt = DT[case["kind"]]
    names = tuple(case["names"])
    if not case["terms"]:
        exps = [[0] * len(names)]
        coefs = [numpy.zeros(shape, dtype=dt)]
    else:
        exps = [t[0] for t in case["terms"]]
        coefs = []
        for _, cs in case["terms"]:
            if case["kind"] == "c":
                vals = [complex(a, b) for a, b in cs]
            else:
                vals = cs
            coefs.append(numpy.array(vals, dtype=dt).reshape(shape))
    p = numpoly.polynomial_from_attributes(exps, coefs, names, dtype=dt)
    return p


def check_case(case, ctx):
    import numpoly

    p = build(case)
    try:
        pm = to_model(p)
    except MalformedPoly as err:
        return [Failure("build:malformed", str(err))]
    opts = dict(case["opts"])
    mul, pw = opts["display_multiply"], opts["display_exponent"]
    fails = []
    nvars = sorted(var_index(n) for n in p.names)  # the monomial order refers to the indeterminates in index order
    graded, reverse, inverse = opts["display_graded"], opts["display_reverse"], opts["display_inverse"]
    kinds = ["repr"] if (mul == " " and p.ndim) else ["str", "repr"]
    setting = "graded=%s,reverse=%s,inverse=%s,exp=%r,mul=%r" % (graded, reverse, inverse, pw, mul)
    coefcls = {"i": "int", "f": "float", "c": "complex", "b": "bool"}[case["kind"]]
    directions = set()
    nt = False
    with numpoly.global_options(**opts):
        for kind in kinds:
            try:
                text = str(p) if kind == "str" else repr(p)
            except Exception as err:
                return [Failure("%s:exception:%s:%s" % (kind, type(err).__name__, coefcls), "%r under %s" % (err, setting))]
            try:
                elems, shape = split_elements(text, kind, mul)
            except ParseError as err:
                return [Failure("%s:unparsable-layout:%s" % (kind, coefcls), "%s in %r" % (err, text[:200]))]
            if len(elems) != pm.size:
                return [Failure("%s:element-count:%s" % (kind, coefcls),
                                "%d elements printed for an array of size %d: %r" % (len(elems), pm.size, text[:200]))]
            if p.ndim and tuple(shape) != tuple(p.shape):
                return [Failure("%s:layout-shape:%s" % (kind, coefcls), "brackets give shape %s for %s: %r"
                                % (shape, p.shape, text[:200]))]
            for idx, el in zip(numpy.ndindex(*pm.shape), elems):
                try:
                    val, order = parse_element(el, mul, pw)
                except ParseError as err:
                    return [Failure("%s:unparsable:%s" % (kind, coefcls), "%s (element %s of %r, %s)"
                                    % (err, idx, text[:200], setting))]
                want = pm[idx]
                if not mp_close(val, want, 1e-15, max(1.0, want.maxabs())) or set(val.d) != set(want.d):
                    return [Failure("%s:value:%s" % (kind, coefcls), "element %s printed as %r denotes %r, not %r (%s)"
                                    % (idx, el, val, want, setting))]
                keys = [order_key(expvec(k, nvars), graded, reverse) for k in order]
                if len(keys) >= 2:
                    inc = all(a < b for a, b in zip(keys, keys[1:]))
                    dec = all(a > b for a, b in zip(keys, keys[1:]))
                    if not (inc or dec):
                        return [Failure("%s:term-order:%s" % (kind, "graded" if graded else "lex"),
                                        "terms of %r are not monotone in the selected order (%s)" % (el, setting))]
                    directions.add("inc" if inc else "dec")
                    degs = [sum(e for _, e in k) for k in order]
                    if len(keys) >= 3 and len(set(degs)) < len(degs):
                        nt = True
                if any(v in (1, -1) or isinstance(v, GQ) or (isinstance(v, Fraction) and v < 0) for v in want.d.values()):
                    nt = True
        if len(directions) > 1:
            return [Failure("term-order:direction-not-uniform", "elements print in different directions under %s" % setting)]
        # display_inverse must flip the direction
        if directions:
            with numpoly.global_options(display_inverse=not inverse):
                flipped = set()
                try:
                    t2 = repr(p)
                    els2, _ = split_elements(t2, "repr", mul)
                    for el in els2:
                        _, order = parse_element(el, mul, pw)
                        keys = [order_key(expvec(k, nvars), graded, reverse) for k in order]
                        if len(keys) >= 2:
                            flipped.add("inc" if all(a < b for a, b in zip(keys, keys[1:])) else "dec")
                except ParseError:
                    flipped = None
                if flipped and flipped == directions:
                    return [Failure("term-order:display_inverse-has-no-effect", "same direction with display_inverse=%s and %s"
                                    % (inverse, not inverse))]
    # sympy round trip: 0-d, int/float, default signs
    if p.ndim == 0 and case["kind"] in ("i", "f"):
        small = all(abs(float(c)) < 1e15 and (c == 0 or abs(float(c)) > 1e-10)
                    for _, cs in case["terms"] for c in cs)
        if small:
            try:
                with numpoly.global_options(**{k: v for k, v in opts.items() if k.startswith("display_")}):
                    back = numpoly.polynomial(numpoly.to_sympy(p))
                bm = to_model(back)
            except MalformedPoly as err:
                return [Failure("sympy:malformed", str(err))]
            except Exception as err:
                return [Failure("sympy:exception:%s%s" % (type(err).__name__, "" if (pw, mul) == ("**", "*") else ":display-signs"),
                                "to_sympy under %s: %r" % ({k: v for k, v in opts.items() if k.startswith("display_")}, err))]
            if bm.shape != pm.shape or not mp_close(bm[()], pm[()], 1e-12, max(1.0, pm[()].maxabs())):
                return [Failure("sympy:value", "polynomial(to_sympy(p)) = %r, p = %r" % (bm[()], pm[()]))]
            ctx.label("sympy-roundtrip")
    ctx.label("coef:" + coefcls)
    ctx.label("mul:%r" % mul)
    ctx.label("exp:%r" % pw)
    ctx.label("ndim:%d" % p.ndim)
    ctx.label("setting:g%d-r%d-i%d" % (graded, reverse, inverse))
    ctx.nontrivial(nt)
    return fails
