"""C19 Leading-term queries, decomposition and the sort proxy match the polynomial."""
import numpy
from hypothesis import strategies as st

from .. import gen
from ..conv import build_checked, to_model, MalformedPoly, var_index
from ..core import Failure
from ..model import MP, arr_map, first_diff, leading, order_key

ID = "C19"
BUDGET = {"quick": 1200, "thorough": 12000}
TECHNIQUE = ("Hypothesis-generated polynomial arrays (zero elements, equal leading terms, negative leading "
             "coefficients, constants) x graded/reverse flags, sort options and target dimensions vs the exact model's "
             "leading term and a reference ranking")
LEVEL_TEXT = ("lead_exponent / lead_coefficient per element against the model's largest non-zero term under the "
              "reference monomial order; isconstant, tonumpy (values or FeatureNotSupported), decompose (one monomial per "
              "slice, slices sum to the input, one slice per term), set_dimensions (added names unused, dropped names "
              "remove exactly the terms that involve them) against the exact polynomial; sortable_proxy must be a "
              "permutation whose order agrees with (leading exponent, leading coefficient) wherever those keys differ; "
              "argmax/argmin/amax/amin without axis must select an element that is extreme for that key under the "
              "global sort options.")
RULE = (
    "polynomial arrays 0-2-d (1-3 names, 0-5 terms, exponents <= 3, int/float, about a third derived so that several "
    "elements share a leading exponent, zero and constant elements common) x graded/reverse flags (argument) or "
    "sort_graded/sort_reverse (global, for argmax/argmin/amax/amin) x target dimensions 1..5 for set_dimensions. "
    "Oracle: model leading term under the reference order; reference ranking key (order_key(leading exponent), leading "
    "coefficient) with ties free. non-trivial = >= 2 elements share a leading exponent, or some element is zero."
)
LEVEL_TEXT += (" The reference ranks monomials by indeterminate index whatever the storage order of the names; polynomials with unordered name tuples are generated.")
RULE += (" A quarter of the cases (half for lead_coefficient) carry tiny exact float coefficients c/4 * 2**-s, s in {30, 40, 60}, on "
         "two thirds of their terms: a term is present iff its coefficient != 0, however small.")
ASSUMPTIONS = [
    "ties of the ranking key (equal leading exponent and coefficient) may come in any order",
    "amax/amin with axis= are a known finding (see C11) and are only exercised without axis here",
    "real coefficients only (the ranking compares leading coefficients)",
]

FUNCS = ["lead_exponent", "lead_coefficient", "isconstant", "tonumpy", "decompose", "set_dimensions",
         "sortable_proxy", "argext"]


@st.composite
def case_st(draw, only=None):
    fn = only or draw(st.sampled_from(FUNCS))
    names = draw(gen.names_st(max_size=3))
    if draw(st.integers(0, 4)) == 0:
        # three or four names stored in a cyclic (non self-inverse) order
        base = sorted(draw(st.lists(st.sampled_from(gen.NAME_POOL), min_size=3, max_size=4, unique=True)), key=gen.var_num)
        k = draw(st.integers(1, len(base) - 1))
        names = base[k:] + base[:k]
    shape = draw(st.sampled_from([(), (), (2,), (3,), (4,), (2, 2), (2, 3), (1, 3), (5,)]))
    if fn in ("sortable_proxy", "argext") and shape == ():
        shape = (4,)
    kind = draw(st.sampled_from(["i", "i", "f"]))
    tiny = draw(st.integers(0, 1 if fn == "lead_coefficient" else 3)) == 0
    if tiny:
        kind = "f"
    desc = draw(gen.poly_desc(names=names, shape=shape, kind=kind, max_terms=5, max_exp=3))
    size = gen.size_of(shape)
    if tiny and desc["terms"]:
        # tiny but non-zero coefficients (c/4 * 2**-s, exact): a term is present iff its coefficient != 0,
        # not iff it is "close to" zero
        sh = draw(st.sampled_from([30, 40, 60]))
        for t in desc["terms"]:
            if draw(st.integers(0, 2)) > 0:
                t[1] = [[c, sh] if c else 0 for c in t[1]]
    # make leading-term ties and zero elements common
    if desc["terms"] and draw(st.integers(0, 2)) == 0:
        for t in desc["terms"]:
            for i in range(size):
                if draw(st.integers(0, 3)) == 0:
                    t[1][i] = 0
    if fn in ("sortable_proxy", "argext") and len(names) >= 2 and draw(st.booleans()):
        # every element is a single monomial of one total degree: which one is extreme depends only on
        # the lexicographic tie-break, i.e. on the reverse flag
        deg = draw(st.integers(1, 3))
        import itertools as _it
        monos = [list(e) for e in _it.product(range(deg + 1), repeat=len(names)) if sum(e) == deg]
        picks = draw(st.lists(st.sampled_from(monos), min_size=size, max_size=size))
        rows = []
        for m in picks:
            if m not in rows:
                rows.append(m)
        desc["terms"] = [[r, [1 if picks[i] == r else 0 for i in range(size)]] for r in rows]
        desc["retain"] = False
    if fn in ("lead_exponent", "lead_coefficient") and desc["terms"] and draw(st.integers(0, 2)) == 0:
        # stored all-zero terms above the true leading term (as alignment / derivatives leave them)
        desc["retain"] = True
        k = draw(st.integers(0, len(desc["terms"]) - 1))
        top = max(range(len(desc["terms"])), key=lambda i: (sum(desc["terms"][i][0]), desc["terms"][i][0]))
        desc["terms"][top][1] = [0] * size
    if fn == "set_dimensions" and len(names) >= 3 and desc["terms"] and draw(st.booleans()):
        # terms that use a late name but not the first dropped one (only the whole tail decides what is dropped)
        for t in desc["terms"]:
            if draw(st.booleans()):
                t[0][1] = 0
                t[0][-1] = t[0][-1] or 1
        seen, kept = set(), []
        for t in desc["terms"]:
            if tuple(t[0]) not in seen:
                seen.add(tuple(t[0]))
                kept.append(t)
        desc["terms"] = kept
    if fn == "tonumpy" and draw(st.booleans()):
        desc["terms"] = [t for t in desc["terms"] if not any(t[0])][:1]
    if fn == "isconstant" and draw(st.integers(0, 2)) == 0:
        desc["terms"] = [t for t in desc["terms"] if not any(t[0])][:1]
    dims = draw(st.integers(1, 5))
    if fn == "set_dimensions" and len(names) >= 2 and draw(st.booleans()):
        dims = draw(st.integers(1, len(names) - 1))
    return {"fn": fn, "poly": desc, "graded": draw(st.booleans()), "reverse": draw(st.booleans()),
            "dims": dims, "which": draw(st.sampled_from(["argmax", "argmin", "amax", "amin"])),
            "spelling": draw(st.sampled_from(["numpoly", "numpy", "method"]))}


def strategy(tier):
    return case_st()


def STRATA(tier):
    return FUNCS + ["sortable_proxy", "set_dimensions", "lead_exponent", "lead_coefficient",
                    "argext:argmax", "argext:argmin", "argext:amax", "argext:amin"]


def strategy_for(tier, name):
    if name.startswith("argext:"):
        return case_st(only="argext").map(lambda c, w=name.split(":")[1]: dict(c, which=w))
    return case_st(only=name)


def rank_key(e, nvars, graded, reverse):
    vec, coef = leading(e, nvars, graded, reverse)
    return (order_key(vec, graded, reverse), float(coef))


def check_case(case, ctx):
    import numpoly

    fn = case["fn"]
    p, pm = build_checked(case["poly"])
    names = list(p.names)
    stored = [var_index(n) for n in names]   # the indeterminates in storage (name tuple) order
    nvars = sorted(stored)                   # the monomial order refers to them in index order
    g, r = case["graded"], case["reverse"]
    fails = []
    setting = "graded=%s,reverse=%s" % (g, r)
    cls = ("graded" if g else "lex") + (",reverse" if r else "")

    def fail(kind, msg, c=None):
        fails.append(Failure("%s:%s:%s" % (fn, kind, c if c is not None else cls), msg))
        return fails

    leads = {idx: leading(pm[idx], nvars, g, r) for idx in numpy.ndindex(*pm.shape)}
    lead_exps = [leads[i][0] for i in leads if pm[i]]
    nt = len(set(lead_exps)) < len(lead_exps) or any(not pm[i] for i in leads)

    if fn == "lead_exponent":
        try:
            got = numpoly.lead_exponent(p, graded=g, reverse=r)
        except Exception as err:
            return fail("exception:" + type(err).__name__, repr(err))
        got = numpy.asarray(got)
        if got.shape != tuple(pm.shape) + (len(names),):
            return fail("shape", "shape %s expected %s" % (got.shape, tuple(pm.shape) + (len(names),)))
        for idx, (vec, _) in leads.items():
            vec = tuple(vec[nvars.index(v)] for v in stored)  # columns follow the polynomial's own names
            if tuple(int(v) for v in got[idx]) != tuple(vec):
                return fail("value", "element %s = %r: lead exponent %s, expected %s under %s"
                            % (idx, pm[idx], got[idx].tolist(), vec, setting))
    elif fn == "lead_coefficient":
        try:
            got = numpoly.lead_coefficient(p, graded=g, reverse=r)
        except Exception as err:
            return fail("exception:" + type(err).__name__, repr(err))
        got = numpy.asarray(got)
        if got.shape != tuple(pm.shape):
            return fail("shape", "shape %s expected %s" % (got.shape, pm.shape))
        for idx, (_, coef) in leads.items():
            if float(got[idx]) != float(coef):
                return fail("value", "element %s = %r: lead coefficient %s, expected %s under %s"
                            % (idx, pm[idx], got[idx], coef, setting))
    elif fn == "isconstant":
        want = all(e.isconstant() for e in pm.flat)
        for name, f in (("function", lambda: numpoly.isconstant(p)), ("method", lambda: p.isconstant())):
            try:
                got = f()
            except Exception as err:
                return fail("exception:" + type(err).__name__, repr(err), name)
            if bool(got) != want:
                return fail("value", "isconstant (%s) is %s, expected %s" % (name, got, want), name)
        nt = True
    elif fn == "tonumpy":
        const = all(e.isconstant() for e in pm.flat)
        try:
            got = numpoly.tonumpy(p)
        except numpoly.FeatureNotSupported:
            if const:
                return fail("unexpected-error", "constant polynomial refused", "constant")
            ctx.label("tonumpy:raises")
            ctx.nontrivial(True)
            return []
        except Exception as err:
            return fail("exception:" + type(err).__name__, repr(err), "any")
        if not const:
            return fail("no-error", "non-constant polynomial converted to %r" % (got,), "non-constant")
        got = numpy.asarray(got)
        if got.shape != tuple(pm.shape) or any(float(got[i]) != float(pm[i].constant()) for i in numpy.ndindex(*pm.shape)):
            return fail("value", "tonumpy %s" % got.tolist(), "constant")
        nt = True
    elif fn == "decompose":
        try:
            got = numpoly.decompose(p)
            gm = to_model(got)
        except MalformedPoly as err:
            return fail("malformed", str(err), "any")
        except Exception as err:
            return fail("exception:" + type(err).__name__, repr(err), "any")
        nterms = len(p.keys)
        if tuple(gm.shape) != (nterms,) + tuple(pm.shape):
            return fail("shape", "shape %s expected %s" % (gm.shape, (nterms,) + tuple(pm.shape)), "any")
        total = gm[0]
        for k in range(1, nterms):
            total = arr_map(lambda a, b: a + b, total, gm[k])
        d = first_diff(numpy.asarray(total, dtype=object).reshape(pm.shape), pm)
        if d:
            return fail("sum", "slices do not sum to the input: " + d, "any")
        for k in range(nterms):
            monos = {m for e in numpy.asarray(gm[k], dtype=object).flat for m in e.d}
            if len(monos) > 1:
                return fail("monomials", "slice %d holds %d different monomials" % (k, len(monos)), "any")
        nt = nterms >= 2
    elif fn == "set_dimensions":
        d = case["dims"]
        D = len(names)
        try:
            # (the count as a plain, a numpy signed or a numpy unsigned integer, as numpy hands them out)
            darg = [d, numpy.int64(d), numpy.uint8(d)][(d + len(names) + pm.size) % 3]
            got = numpoly.set_dimensions(p, darg)
            gm = to_model(got)
        except MalformedPoly as err:
            return fail("malformed", str(err), "any")
        except Exception as err:
            return fail("exception:" + type(err).__name__, repr(err), "grow" if d > D else "shrink")
        if len(got.names) != d:
            return fail("names-count", "%d names for dimensions=%d: %s" % (len(got.names), d, got.names), "any")
        if d >= D:
            if not set(names) <= set(got.names):
                return fail("names-lost", "names %s became %s" % (names, got.names), "grow")
            want = pm
        else:
            if list(got.names) != names[:d]:
                return fail("names", "names %s expected %s" % (got.names, names[:d]), "shrink")
            dropped = set(stored[d:])
            want = arr_map(lambda e: MP({k: v for k, v in e.d.items() if not any(n in dropped for n, _ in k)}), pm)
        diff = first_diff(gm, want)
        if diff:
            return fail("value", "dimensions=%d on names %s: %s" % (d, names, diff), "grow" if d >= D else "shrink")
        ctx.label("set_dimensions:" + ("grow" if d > D else ("same" if d == D else "shrink")))
        nt = d != D
    elif fn == "sortable_proxy":
        try:
            proxy = numpy.asarray(numpoly.sortable_proxy(p, graded=g, reverse=r))
        except Exception as err:
            return fail("exception:" + type(err).__name__, repr(err))
        if proxy.shape != tuple(pm.shape) or sorted(proxy.ravel().tolist()) != list(range(pm.size)):
            return fail("not-a-permutation", "proxy %s for shape %s" % (proxy.tolist(), pm.shape))
        keys = {idx: rank_key(pm[idx], nvars, g, r) for idx in numpy.ndindex(*pm.shape)}
        idxs = list(keys)
        for a in idxs:
            for b in idxs:
                if keys[a] < keys[b] and not proxy[a] < proxy[b]:
                    return fail("order", "elements %r (key %s) and %r (key %s) have proxies %d and %d under %s"
                                % (pm[a], keys[a], pm[b], keys[b], proxy[a], proxy[b], setting))
    else:
        which = case["which"]
        sp = case["spelling"]
        with numpoly.global_options(sort_graded=g, sort_reverse=r):
            try:
                if sp == "method" and which in ("amax", "amin"):
                    got = getattr(p, which[1:])()
                elif sp == "numpy":
                    got = getattr(numpy, which)(p)
                else:
                    got = getattr(numpoly, which)(p)
            except Exception as err:
                return fail("exception:" + type(err).__name__, repr(err))
        keys = [rank_key(e, nvars, g, r) for e in pm.flat]
        ext = max(keys) if which in ("argmax", "amax") else min(keys)
        if which.startswith("arg"):
            try:
                i = int(got)
            except Exception:
                return fail("type", "%s returned %r" % (which, got))
            if not (0 <= i < pm.size) or keys[i] != ext:
                return fail("value", "%s = %s selects key %s, extreme key is %s under %s"
                            % (which, got, keys[i] if 0 <= i < pm.size else None, ext, setting))
        else:
            try:
                gm = to_model(got)
            except MalformedPoly as err:
                return fail("malformed", str(err))
            if gm.shape != ():
                return fail("shape", "%s without axis has shape %s" % (which, gm.shape))
            if rank_key(gm[()], nvars, g, r) != ext or not any(gm[()] == e for e in pm.flat):
                return fail("value", "%s returned %r, not an extreme element (extreme key %s) under %s"
                            % (which, gm[()], ext, setting))
        ctx.label("argext:" + which)
    ctx.label("fn:" + fn)
    ctx.label("setting:" + cls)
    ctx.nontrivial(bool(nt))
    return fails
