"""C03 Returned polynomials are well-formed and regenerate from their attributes."""
import numpy
from hypothesis import strategies as st

from .. import gen, hooks
from ..catalogue import RECIPES, EXTRA, PolyOperands, any_call_strategy, resolve, run_call
from ..conv import to_model, MalformedPoly, var_index, KIND_DTYPE, coef_value, coef_exact
from ..core import Failure
from ..model import MP, first_diff

ID = "C03"
OWNS_CONSTRUCTION = True
BUDGET = {"quick": 2400, "thorough": 16000}
TECHNIQUE = ("invariant monitor over the results of every catalogue entry (and two-step programs) + three rebuild "
             "round-trips; Hypothesis-generated attribute triples vs a model of the cleaning rules")
LEVEL_TEXT = ("(a) every ndpoly returned (also inside tuples/lists) by every catalogue entry on generated inputs, and "
              "by a second operation applied to that result, must satisfy the structural predicate and regenerate "
              "from (exponents, coefficients, names), from the raw structured view and from todict(); (b) generated "
              "attribute triples with redundant zero terms, unused names, unsorted/duplicate rows, duplicate names and "
              "wrong lengths are fed to the constructors under both settings of both retain flags (argument and global "
              "option) and compared with a model of which terms/names survive and which inputs are rejected.")
RULE = (
    "(a) calls drawn per catalogue entry (stratified) on polynomial arrays 0-3-d, 1-3 names, int/float; every "
    "returned ndpoly p: exponents (N,D) unsigned with pairwise distinct rows, len(coefficients)==N each of p.shape "
    "and p.dtype, D==len(names)>=1 distinct names, keys decode (ord-59) to the exponent rows, values.dtype.names == "
    "keys, raw columns == coefficients, todict() has the same terms; polynomial_from_attributes(exponents, "
    "coefficients, names), polynomial/aspolynomial(p.values, names=p.names) and polynomial(p.todict(), names=p.names) "
    "are model-equal with the same shape, dtype and names; half of the cases apply a second operation (+, *, "
    "indexing, reshape, sum) to the result first. (b) attribute triples: 1-5 rows over 1-3 names with all-zero rows, "
    "a zero constant row, unused columns, duplicates, duplicate names, length mismatches x retain flags as arguments "
    "and as global options x polynomial_from_attributes / ndpoly.from_attributes / clean_attributes / "
    "remove_redundant_coefficients / remove_redundant_names. non-trivial = the result has >= 2 terms, or the "
    "operation removed a term or a name, or the input was rejected."
)
LEVEL_TEXT += (" Constructors with an explicit allocation= (N, N+1, 2N-1, 2N, 3N slots, also followed by hsplit/vsplit/+), from exponents without names, and from numpy arrays are part of the catalogue. Attribute variants: an all-zero coefficient wider in shape or type, a requested dtype that casts a term to zero, names=(), and no coefficient list at all (for the given rows, or for no rows: the empty sum) - the zero polynomial whose terms are all all-zero terms.")
ASSUMPTIONS = [
    "size-0 results are excluded (known finding: size-0 arrays lose their shape, see C10/C12)",
    "term order of a rebuilt polynomial is not asserted, only the term set",
]

OG = PolyOperands(max_terms=4, max_exp=2, kinds="if", max_names=3)
SKIP = {"apply_along_axis", "apply_over_axes", "to_sympy", "str", "repr", "copyto"}
SECOND = ["none", "none", "add-self", "mul-self", "index0", "ravel", "sum", "neg"]


@st.composite
def result_case(draw, only=None):
    if only is None:
        call = draw(any_call_strategy(OG, skip=SKIP))
    elif only in RECIPES:
        call = draw(any_call_strategy(OG, names=[only], extra_names=[]))
    else:
        call = draw(any_call_strategy(OG, names=[], extra_names=[only]))
    call["second"] = draw(st.sampled_from(SECOND))
    return call


@st.composite
def attr_case(draw):
    D = draw(st.sampled_from([1, 2, 2, 3, 3, 4]))
    N = draw(st.integers(1, 5))
    rows = draw(st.lists(st.lists(st.integers(0, 2), min_size=D, max_size=D), min_size=N, max_size=N))
    if draw(st.integers(0, 3)) == 0:
        rows[0] = [0] * D
    if N >= 2 and draw(st.integers(0, 5)) == 0:
        rows[-1] = list(rows[0])  # duplicate row
    if draw(st.integers(0, 2)) == 0:
        col = draw(st.integers(0, D - 1))
        for r in rows:
            r[col] = 0  # unused name
    shape = draw(st.sampled_from([(), (), (2,), (3,), (2, 2)]))
    size = gen.size_of(shape)
    kind = draw(st.sampled_from(["i", "f"]))
    coefs = []
    for _ in range(N):
        if draw(st.integers(0, 2)) == 0:
            coefs.append([0] * size)
        else:
            coefs.append(draw(st.lists(gen.coef_st(kind), min_size=size, max_size=size)))
    names = draw(st.lists(st.sampled_from(gen.NAME_POOL), min_size=D, max_size=D, unique=True))
    if draw(st.integers(0, 1)):
        names = sorted(names, key=gen.var_num)
    fault = draw(st.sampled_from([None] * 5 + ["dup-name", "dup-name", "dup-name", "len-coef", "len-names"]))
    if fault == "dup-name" and D >= 2:
        i, j = sorted(draw(st.lists(st.integers(0, D - 1), min_size=2, max_size=2, unique=True)))
        if D >= 3 and draw(st.booleans()):
            i, j = 0, D - 1  # not adjacent
        names[j] = names[i]
    func = draw(st.sampled_from(["polynomial_from_attributes", "from_attributes", "clean_attributes",
                                 "remove_redundant_coefficients", "remove_redundant_names"]))
    tri = st.sampled_from([None, True, False])
    variant = None
    if fault is None and func in ("polynomial_from_attributes", "from_attributes"):
        pick = draw(st.integers(0, 5))
        if pick == 0 and N >= 2:
            # one all-zero coefficient that is wider than the others (in shape and/or type): the result's shape
            # and dtype are those of all coefficients together, whether or not that term is dropped
            variant = {"zero_wide": draw(st.integers(0, N - 1)), "wide_shape": draw(st.booleans()) and shape == (),
                       "wide_kind": kind == "i" and draw(st.booleans())}
            if not variant["wide_shape"] and not variant["wide_kind"]:
                variant["wide_kind" if kind == "i" else "wide_shape"] = True
            if variant["wide_shape"] and shape != ():
                variant = None
        elif pick == 1 and kind == "f":
            # a requested integer dtype: terms whose coefficients become zero by the cast are all-zero terms
            variant = {"dtype": "int64"}
        elif pick == 2:
            variant = {"names": "empty"}  # names=() for D >= 1 columns: not a valid triple
        elif pick == 3:
            # no coefficient list at all (what a size-0 array's attributes look like), for the given rows or for
            # no rows (the empty sum): the zero polynomial, all of whose terms are all-zero terms
            variant = {"no_coefs": True, "no_rows": draw(st.booleans())}
    return {"attrs": {"rows": rows, "coefs": coefs, "names": names, "shape": list(shape), "kind": kind},
            "fault": fault, "func": func, "variant": variant,
            "arg_rc": draw(tri), "arg_rn": draw(tri), "opt_rc": draw(st.booleans()), "opt_rn": draw(st.booleans())}


def strategy(tier):
    return st.one_of(result_case(), attr_case())


def STRATA(tier):
    names = sorted(n for n in list(RECIPES) + list(EXTRA) if n not in SKIP)
    return names + ["attributes"] * 40 + ["construct-allocation#2", "construct-allocation#3", "construct-unnamed#2"]


def strategy_for(tier, name):
    if name == "attributes":
        return attr_case()
    return result_case(only=name.split("#")[0])


# ---------------------------------------------------------------- structural predicate

def wellformed(p, numpoly):
    """None or (kind, message)."""
    try:
        exps = numpy.asarray(p.exponents)
        coefs = p.coefficients
        names = tuple(p.names)
        keys = list(p.keys)
    except Exception as err:
        return "attributes-raise", repr(err)
    if exps.ndim != 2:
        return "exponents-ndim", "exponents.ndim == %d" % exps.ndim
    N, D = exps.shape
    if exps.dtype.kind != "u":
        return "exponents-dtype", "exponents dtype %s is not unsigned" % exps.dtype
    if len({tuple(r) for r in exps.tolist()}) != N:
        return "duplicate-exponents", "exponent rows are not pairwise distinct: %s" % exps.tolist()
    if len(coefs) != N:
        return "coefficients-length", "%d coefficients for %d exponent rows" % (len(coefs), N)
    for i, c in enumerate(coefs):
        c = numpy.asarray(c)
        if tuple(c.shape) != tuple(p.shape):
            return "coefficient-shape", "coefficient %d has shape %s, array shape %s" % (i, c.shape, p.shape)
        if c.dtype != p.dtype:
            return "coefficient-dtype", "coefficient %d has dtype %s, polynomial dtype %s" % (i, c.dtype, p.dtype)
    if D != len(names) or D < 1:
        return "names-width", "exponent width %d, names %s" % (D, names)
    if len(set(names)) != len(names):
        return "duplicate-names", "names %s" % (names,)
    if len(keys) != N:
        return "keys-length", "%d keys for %d terms" % (len(keys), N)
    for k, row in zip(keys, exps.tolist()):
        try:
            decoded = [ord(ch) - 59 for ch in k]
        except Exception as err:  # e.g. a key holding an invalid code point
            return "key-decoding", "key of exponent row %s cannot be read: %r" % (row, err)
        if decoded != [int(x) for x in row]:
            return "key-decoding", "key %r does not decode to exponent row %s" % (k, row)
    raw = p.values
    if tuple(raw.dtype.names or ()) != tuple(keys):
        return "values-fields", "values.dtype.names %s != keys %s" % (raw.dtype.names, keys)
    if not isinstance(raw, numpy.ndarray) or isinstance(raw, numpoly.ndpoly):
        return "values-type", "values is %r" % type(raw)
    for k, c in zip(keys, coefs):
        col = numpy.asarray(raw[k])
        if col.shape != numpy.asarray(c).shape or not numpy.array_equal(col, c):
            return "values-columns", "raw column %r differs from the coefficient" % k
    d = p.todict()
    if sorted(tuple(int(x) for x in k) for k in d) != sorted(tuple(r) for r in exps.tolist()):
        return "todict-terms", "todict() keys %s vs exponents %s" % (sorted(d), exps.tolist())
    for k, c in zip(exps.tolist(), coefs):
        if not numpy.array_equal(numpy.asarray(d[tuple(k)]), c):
            return "todict-values", "todict()[%s] differs from the coefficient" % (k,)
    return None


def roundtrips(p, numpoly):
    """None or (kind, message)."""
    base = to_model(p)
    trips = [
        ("from-attributes", lambda: numpoly.polynomial_from_attributes(p.exponents, p.coefficients, p.names)),
        ("from-values", lambda: numpoly.polynomial(p.values, names=p.names)),
        ("aspolynomial-values", lambda: numpoly.aspolynomial(p.values, names=p.names)),
        ("from-todict", lambda: numpoly.polynomial(p.todict(), names=p.names)),
    ]
    for name, fn in trips:
        try:
            q = fn()
        except Exception as err:
            return "roundtrip-exception:%s:%s" % (name, type(err).__name__), repr(err)
        if not isinstance(q, numpoly.ndpoly):
            return "roundtrip-type:" + name, repr(type(q))
        try:
            qm = to_model(q)
        except MalformedPoly as err:
            return "roundtrip-malformed:" + name, str(err)
        if tuple(q.shape) != tuple(p.shape):
            return "roundtrip-shape:" + name, "%s vs %s" % (q.shape, p.shape)
        if q.dtype != p.dtype:
            return "roundtrip-dtype:" + name, "%s vs %s" % (q.dtype, p.dtype)
        if tuple(q.names) != tuple(p.names):
            return "roundtrip-names:" + name, "%s vs %s" % (q.names, p.names)
        d = first_diff(qm, base)
        if d:
            return "roundtrip-value:" + name, d
    return None


def collect(x, numpoly, out):
    if isinstance(x, numpoly.ndpoly):
        out.append(x)
    elif isinstance(x, (list, tuple)):
        for i in x:
            collect(i, numpoly, out)
    elif isinstance(x, dict):
        for i in x.values():
            collect(i, numpoly, out)
    return out


def second_op(p, how, numpoly):
    if how == "add-self":
        return p + p
    if how == "mul-self":
        return p * p
    if how == "index0":
        return p[0] if p.ndim else p
    if how == "ravel":
        return p.ravel()
    if how == "sum":
        return numpoly.sum(p)
    if how == "neg":
        return -p
    return p


# ---------------------------------------------------------------- attribute triples

def expected_attributes(attrs, rc, rn):
    """Model of the cleaning rules: ('error', why) or ('ok', rows, names) with rows = list of (exponent row, coef list)."""
    rows = [list(r) for r in attrs["rows"]]
    coefs = attrs["coefs"]
    names = list(attrs["names"])
    if len(rows) != len(coefs):
        return ("error", "length")
    if len(names) != len(rows[0]):
        return ("error", "names-length")
    pairs = list(zip(rows, coefs))
    if len({tuple(r) for r in rows}) != len(rows):
        # a repeated exponent row is an invalid triple whatever its coefficients are (also all-zero ones)
        return ("error", "duplicate-exponents")
    if not rc:
        kept = [(r, c) for r, c in pairs if any(x != 0 and x != [0, 0] for x in c) or not any(r)]
        if not kept:
            kept = [([0] * len(rows[0]), [0] * len(coefs[0]))]
        pairs = kept
    if len(set(names)) != len(names):
        return ("error", "duplicate-names")
    if not rn:
        used = [any(r[j] for r, _ in pairs) for j in range(len(names))]
        if not any(used):
            used[0] = True
        pairs = [([x for x, u in zip(r, used) if u], c) for r, c in pairs]
        names = [n for n, u in zip(names, used) if u]
    if len({tuple(r) for r, _ in pairs}) != len(pairs):
        return ("error", "duplicate-exponents")
    return ("ok", pairs, names)


def attrs_model(attrs):
    shape = tuple(attrs["shape"])
    size = gen.size_of(shape)
    vidx = [var_index(n) for n in attrs["names"]]
    out = numpy.empty(shape, dtype=object)
    acc = [dict() for _ in range(size)]
    for row, cs in zip(attrs["rows"], attrs["coefs"]):
        k = tuple(sorted((v, e) for v, e in zip(vidx, row) if e))
        for i in range(size):
            v = coef_exact(attrs["kind"], cs[i])
            if v != 0:
                acc[i][k] = acc[i].get(k, 0) + v
    for i, idx in enumerate(numpy.ndindex(*shape)):
        out[idx] = MP(acc[i])
    return out


def check_attrs(case, ctx):
    import numpoly
    # "rejected" = a ValueError (PolynomialConstructionError is one); which subclass is not part of the claim
    PolynomialConstructionError = ValueError

    attrs = dict(case["attrs"])
    attrs["rows"] = [list(r) for r in attrs["rows"]]
    attrs["coefs"] = [list(c) for c in attrs["coefs"]]
    fault = case["fault"]
    if fault == "len-coef":
        attrs["coefs"] = attrs["coefs"] + [attrs["coefs"][0]]
    if fault == "len-names":
        attrs["names"] = attrs["names"] + ["q9"]
    func = case["func"]
    shape = tuple(attrs["shape"])
    dtype = KIND_DTYPE[attrs["kind"]]
    carr = [numpy.array([coef_value(attrs["kind"], c) for c in cs], dtype=dtype).reshape(shape)
            for cs in attrs["coefs"]]
    variant = case.get("variant") or {}
    extra_kw = {}
    names_arg = tuple(attrs["names"])
    if "zero_wide" in variant:
        zi = variant["zero_wide"]
        wshape = (2,) if variant["wide_shape"] else shape
        wkind = "f" if variant["wide_kind"] else attrs["kind"]
        carr[zi] = numpy.zeros(wshape, dtype=KIND_DTYPE[wkind])
        # what the triple denotes: every coefficient broadcast to the common shape, in the common type
        mult = gen.size_of(wshape) // max(gen.size_of(shape), 1)
        scale = 4 if (wkind == "f" and attrs["kind"] == "i") else 1  # (float coefficients are stored as quarters)
        attrs["coefs"] = [[0] * gen.size_of(wshape) if i == zi else [v * scale for v in cs] * mult
                          for i, cs in enumerate(attrs["coefs"])]
        attrs["shape"], attrs["kind"] = list(wshape), wkind
        shape, dtype = wshape, KIND_DTYPE[wkind]
    if variant.get("dtype"):
        extra_kw["dtype"] = variant["dtype"]
        attrs["coefs"] = [[int(v / 4.0) for v in cs] for cs in attrs["coefs"]]  # numpy's float -> int cast truncates
        attrs["kind"], dtype = "i", variant["dtype"]
    if variant.get("names") == "empty":
        names_arg = ()
    rows_arg = attrs["rows"]
    if variant.get("no_coefs"):
        ncols = len(attrs["names"])
        if variant.get("no_rows"):
            rows_arg = numpy.zeros((0, ncols), dtype=int)
            attrs["rows"] = [[0] * ncols]
        carr = []
        attrs["coefs"] = [[0] for _ in attrs["rows"]]
        attrs["shape"], attrs["kind"] = [], "i"
        shape, dtype = (), KIND_DTYPE["i"]
    opts = {"retain_coefficients": case["opt_rc"], "retain_names": case["opt_rn"]}
    rc = case["arg_rc"] if case["arg_rc"] is not None else case["opt_rc"]
    rn = case["arg_rn"] if case["arg_rn"] is not None else case["opt_rn"]
    fails = []
    flagcls = "rc=%s,rn=%s" % (rc, rn)

    def fail(kind, msg):
        fails.append(Failure("%s:%s" % (func, kind), "%s [%s]" % (msg, flagcls)))
        return fails

    if func in ("remove_redundant_coefficients", "remove_redundant_names"):
        if fault in ("len-coef", "len-names"):
            ctx.discard_case(None)
            ctx.label("attributes:helper-skip")
            return []
        rows = numpy.array(attrs["rows"])
        if func == "remove_redundant_coefficients":
            try:
                e, c = numpoly.remove_redundant_coefficients(rows, carr)
            except Exception as err:
                return fail("exception:" + type(err).__name__, repr(err))
            exp = expected_attributes(dict(attrs, names=["q%d" % i for i in range(rows.shape[1])]), False, True)
            got = sorted((tuple(int(x) for x in r), numpy.asarray(cc).ravel().tolist()) for r, cc in zip(e, c))
            # duplicate rows are not this helper's business: compare as multisets
            want = [(r, cs) for r, cs in zip(attrs["rows"], attrs["coefs"])
                    if any(x != 0 for x in cs) or not any(r)] or [([0] * rows.shape[1], [0] * len(attrs["coefs"][0]))]
            want = sorted((tuple(r), [coef_value(attrs["kind"], x) for x in cs]) for r, cs in want)
            if got != want:
                return fail("terms", "kept %s, expected %s" % (got, want))
        else:
            try:
                e, n = numpoly.remove_redundant_names(rows, list(attrs["names"]))
            except Exception as err:
                return fail("exception:" + type(err).__name__, repr(err))
            used = [bool(rows[:, j].any()) for j in range(rows.shape[1])]
            if not any(used):
                used[0] = True
            if list(n) != [x for x, u in zip(attrs["names"], used) if u] or \
                    numpy.asarray(e).tolist() != rows[:, used].tolist():
                return fail("names", "kept %s / %s" % (n, numpy.asarray(e).tolist()))
        ctx.label("attributes:" + func)
        ctx.nontrivial(True)
        return fails

    expect = expected_attributes(attrs, rc, rn)
    if variant.get("names") == "empty":
        expect = ("error", "names-length")
    with numpoly.global_options(**opts):
        try:
            if func == "clean_attributes":
                # build with everything retained (must succeed unless the triple itself is invalid),
                # then clean with the flags under test
                base = expected_attributes(attrs, True, True)
                if base[0] == "error":
                    ctx.discard_case(None)
                    ctx.label("attributes:clean-skip-invalid")
                    return []
                raw = numpoly.polynomial_from_attributes(attrs["rows"], carr, tuple(attrs["names"]),
                                                         retain_coefficients=True, retain_names=True)
                p = numpoly.clean_attributes(raw, retain_coefficients=case["arg_rc"], retain_names=case["arg_rn"])
            elif func == "from_attributes":
                p = numpoly.ndpoly.from_attributes(rows_arg, carr, names_arg,
                                                   retain_coefficients=case["arg_rc"], retain_names=case["arg_rn"],
                                                   **extra_kw)
            else:
                p = numpoly.polynomial_from_attributes(rows_arg, carr, names_arg,
                                                       retain_coefficients=case["arg_rc"],
                                                       retain_names=case["arg_rn"], **extra_kw)
        except PolynomialConstructionError as err:
            if expect[0] == "error":
                ctx.label("attributes:rejected:" + expect[1])
                ctx.nontrivial(True)
                return []
            return fail("unexpected-rejection", repr(err))
        except Exception as err:
            return fail("exception:" + type(err).__name__, repr(err))
    if expect[0] == "error":
        return fail("accepted-invalid:" + expect[1], "constructor accepted a triple with %s" % expect[1])
    _, pairs, names = expect
    bad = wellformed(p, numpoly)
    if bad:
        return fail("malformed:" + bad[0], bad[1])
    if list(p.names) != list(names):
        return fail("names", "names %s, expected %s" % (p.names, names))
    got_rows = sorted(tuple(int(x) for x in r) for r in p.exponents.tolist())
    want_rows = sorted(tuple(r) for r, _ in pairs)
    if got_rows != want_rows:
        return fail("terms", "exponent rows %s, expected %s" % (got_rows, want_rows))
    if tuple(p.shape) != shape or str(p.dtype) != dtype:
        return fail("shape-dtype", "shape %s dtype %s" % (p.shape, p.dtype))
    d = first_diff(to_model(p), attrs_model(attrs))
    if d:
        return fail("value", "denoted polynomial changed: " + d)
    ctx.label("attributes:" + func)
    ctx.label("attributes:" + flagcls)
    if variant:
        ctx.label("attributes:variant:" + ",".join(sorted(k for k, v in variant.items() if v not in (False, None))))
    removed = len(pairs) < len(attrs["rows"]) or len(names) < len(attrs["names"])
    if removed:
        ctx.label("attributes:removed-term-or-name")
    ctx.nontrivial(removed or len(pairs) >= 2)
    return fails


# ---------------------------------------------------------------- driver

def check_case(case, ctx):
    if "attrs" in case:
        return check_attrs(case, ctx)
    import numpoly

    fn = case["fn"]
    try:
        res = run_call(case)
    except hooks.DivisionLoop:
        raise
    except Exception:
        ctx.discard_case(None)  # whether a call may raise is owned by other properties
        ctx.label("call-raised")
        return []
    polys = collect(res, numpoly, [])
    if case["second"] != "none" and polys and polys[0].size:  # (size-0 operands: known finding, excluded)
        try:
            polys = polys + [second_op(polys[0], case["second"], numpoly)]
            ctx.label("two-step:" + case["second"])
        except hooks.DivisionLoop:
            raise
        except Exception:
            pass
    fails = []
    nt = False
    for i, p in enumerate(polys):
        if p.size == 0:
            ctx.label("skipped-size-0")
            continue
        bad = wellformed(p, numpoly) or roundtrips(p, numpoly)
        if bad:
            where = "second-step" if (case["second"] != "none" and i == len(polys) - 1 and len(polys) > 1) else fn
            fails.append(Failure("%s:%s" % (where, bad[0]), bad[1]))
            break
        nt = nt or len(p.keys) >= 2
    ctx.label("fn:" + fn)
    if not polys:
        ctx.label("no-polynomial-result")
    ctx.nontrivial(nt)
    return fails
