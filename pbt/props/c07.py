"""C07 Comparison operators form one documented strict total order."""
import itertools
import operator

import numpy
from hypothesis import strategies as st

from .. import gen
from ..conv import build_checked, build_operand, to_model, MalformedPoly, var_index
from ..core import Failure
from ..model import MP, compare, order_key, expvec, first_diff

ID = "C07"
BUDGET = {"quick": 600, "thorough": 5000}
TECHNIQUE = ("bounded-exhaustive universe of small polynomials (all pairs and triples, 4 sort settings) + "
             "Hypothesis-generated many-term same-degree pairs vs an independent reference comparator and the "
             "order axioms")
LEVEL_TEXT = ("All pairs (one broadcast call per operator) and all triples (boolean matrix product) of a complete "
              "universe of small polynomials are checked against the order axioms and a vectorised reference "
              "comparator under all four sort_graded/sort_reverse settings; random operands with 5-15 terms of equal "
              "degree stress tie-breaking inside a grade; maximum/minimum must return the reference's larger/smaller operand.")
EXHAUSTIVE_PARTS = ("quick: universe U2 = all polynomials over q0,q1 with monomials of degree <= 2, coefficients in "
                    "{-1,0,1}, support <= 3 (233 polynomials): all 233**2 pairs x 6 operators x 4 settings, all triples; "
                    "plus the sub-universes without constant term / degree 2 only / linear only (coefficients -1,1,2); "
                    "thorough: additionally U3 over q0,q1,q2 (coefficients {-1,1}, support <= 3, degree <= 2; 1161 polynomials)")
RULE = (
    "(1) bounded-exhaustive: U[:,None] op U[None,:] for op in < <= > >= == != (operator spelling; numpy.less... "
    "spelling on the same arrays), under all four sort_graded/sort_reverse settings: exactly one of <,==,> holds, "
    "<= >= != are complements, antisymmetry, transitivity over all triples, == only for identical model elements, "
    "agreement with the reference comparator 'sign of the coefficient difference at the largest monomial (in the "
    "selected order) where the two differ'; maximum/minimum equal the reference's larger/smaller operand. "
    "(2) Hypothesis-generated pairs/triples with 3-20 terms of one total degree (2-4 indeterminates) plus lower terms, broadcasting shapes, int and "
    "float coefficients, random setting, compared per element with the reference. "
    "non-trivial (generated) = the deciding monomial is not the leading monomial of both operands, or >= 3 terms "
    "share the deciding grade; enumerated pairs with different polynomials are distinct by construction."
)
LEVEL_TEXT += (" Operand pairs stored in a common, not index-ordered, name tuple, and uint8/uint64/int8 storage with values at the type limits, are part of the generated space.")
ASSUMPTIONS = [
    "real coefficients only (complex numbers have no order; numpy compares real parts)",
    "reference monomial order reproduces the documented glexsort semantics (checked against the docstring examples in pbt.selftest)",
]
OPS = [("lt", operator.lt, "less"), ("le", operator.le, "less_equal"), ("gt", operator.gt, "greater"),
       ("ge", operator.ge, "greater_equal"), ("eq", operator.eq, "equal"), ("ne", operator.ne, "not_equal")]
SETTINGS = [(True, False), (True, True), (False, False), (False, True)]


def universe(nvars, coefs, maxdeg=2, support=3):
    """(names, monomial exponent rows, coefficient matrix n x M)"""
    monos = [e for e in itertools.product(range(maxdeg + 1), repeat=nvars) if sum(e) <= maxdeg]
    rows = []
    M = len(monos)
    for k in range(0, support + 1):
        for sup in itertools.combinations(range(M), k):
            for cs in itertools.product(coefs, repeat=k):
                r = [0] * M
                for i, c in zip(sup, cs):
                    r[i] = c
                rows.append(r)
    return ["q%d" % i for i in range(nvars)], monos, numpy.array(rows, dtype=int)


def ref_sign(C, monos, graded, reverse, rows=None):
    """sign matrix: compare row i (of `rows`) with row j at the largest differing monomial."""
    order = sorted(range(len(monos)), key=lambda m: order_key(monos[m], graded, reverse))
    Cs = C[:, order]
    A = Cs if rows is None else Cs[rows]
    diff = A[:, None, :] - Cs[None, :, :]
    nz = diff != 0
    M = diff.shape[-1]
    last = M - 1 - numpy.argmax(nz[..., ::-1], axis=-1)
    anyd = nz.any(axis=-1)
    val = numpy.take_along_axis(diff, last[..., None], axis=-1)[..., 0]
    return numpy.where(anyd, numpy.sign(val), 0)


def coef_tensor(poly, names, monos):
    """coefficients of `poly` per universe monomial: array poly.shape + (M,)"""
    pn = list(poly.names)
    col = {n: i for i, n in enumerate(names)}
    out = numpy.zeros(tuple(poly.shape) + (len(monos),), dtype=float)
    index = {tuple(m): i for i, m in enumerate(monos)}
    for e, c in zip(poly.exponents.tolist(), poly.coefficients):
        full = [0] * len(names)
        for n, x in zip(pn, e):
            if n not in col:
                if x:
                    raise MalformedPoly("unexpected indeterminate %s" % n)
                continue
            full[col[n]] = x
        c = numpy.asarray(c)
        key = tuple(full)
        if key not in index:
            if numpy.any(c != 0):
                raise MalformedPoly("unexpected monomial %r" % (key,))
            continue
        out[..., index[key]] += c
    return out


def enumerate_cases(tier):
    for g, r in SETTINGS:
        yield {"universe": "U2", "graded": g, "reverse": r, "rows": None}
        # the same universe restricted to monomial subsets, so that the aligned term set of a
        # comparison lacks the constant term / the low grades (the walk over the aligned terms
        # starts somewhere else then)
        yield {"universe": "U2-nonconstant", "graded": g, "reverse": r, "rows": None}
        yield {"universe": "U2-degree2", "graded": g, "reverse": r, "rows": None}
        yield {"universe": "U2-linear", "graded": g, "reverse": r, "rows": None}
    if tier == "thorough":
        for g, r in SETTINGS:
            for lo in range(0, 1161, 150):
                yield {"universe": "U3", "graded": g, "reverse": r, "rows": [lo, min(lo + 150, 1161)]}


_UCACHE = {}


def get_universe(name):
    if name not in _UCACHE:
        if name == "U2":
            _UCACHE[name] = universe(2, (-1, 1))
        elif name.startswith("U2-"):
            names, monos, C = universe(2, (-1, 1, 2), support=3)
            keep = {"nonconstant": [i for i, m in enumerate(monos) if sum(m) > 0],
                    "degree2": [i for i, m in enumerate(monos) if sum(m) == 2],
                    "linear": [i for i, m in enumerate(monos) if sum(m) == 1]}[name[3:]]
            drop = [i for i in range(len(monos)) if i not in keep]
            rows = C[(C[:, drop] == 0).all(axis=1)][:, keep]
            rows = numpy.unique(rows, axis=0)
            _UCACHE[name] = (names, [monos[i] for i in keep], rows)
        else:
            _UCACHE[name] = universe(3, (-1, 1))
    return _UCACHE[name]


def check_universe(case, ctx):
    import numpoly

    names, monos, C = get_universe(case["universe"])
    g, r = case["graded"], case["reverse"]
    setting = "graded=%s,reverse=%s" % (g, r)
    U = numpoly.polynomial_from_attributes(monos, [C[:, i] for i in range(len(monos))], names,
                                           retain_coefficients=True, retain_names=True)
    n = len(C)
    rows = None if case["rows"] is None else numpy.arange(*case["rows"])
    A = U if rows is None else U[rows]
    CA = C if rows is None else C[rows]
    sign = ref_sign(C, monos, g, r, rows)
    fails = []
    res = {}

    def render(i, j):
        def one(row):
            return "+".join("%d*%s" % (c, "*".join("q%d^%d" % (v, e) for v, e in enumerate(m) if e) or "1")
                            for c, m in zip(row, monos) if c) or "0"
        return "%s  vs  %s" % (one(CA[i]), one(C[j]))

    with numpoly.global_options(sort_graded=g, sort_reverse=r):
        for name, op, npname in OPS:
            try:
                out = op(A[:, None], U[None, :])
                out2 = getattr(numpy, npname)(A[:, None], U[None, :])
            except Exception as err:
                return [Failure("%s:exception:%s" % (name, type(err).__name__), "%s under %s" % (err, setting))]
            out = numpy.asarray(out)
            if out.dtype != bool or out.shape != (len(CA), n):
                return [Failure("%s:type" % name, "result dtype %s shape %s" % (out.dtype, out.shape))]
            if not numpy.array_equal(out, numpy.asarray(out2)):
                return [Failure("%s:spelling" % name, "operator and numpy.%s differ under %s" % (npname, setting))]
            res[name] = out
        expect = {"lt": sign < 0, "le": sign <= 0, "gt": sign > 0, "ge": sign >= 0, "eq": sign == 0, "ne": sign != 0}
        for name in expect:
            bad = numpy.argwhere(res[name] != expect[name])
            if len(bad):
                i, j = bad[0]
                cls = "graded" if g else "lex"
                fails.append(Failure("%s:reference:%s%s" % (name, cls, ",reverse" if r else ""),
                                     "%s: got %s under %s for %s" % (name, res[name][i, j], setting, render(i, j)),
                                     case={"pair": [CA[i].tolist(), C[j].tolist()], "monos": [list(m) for m in monos],
                                           "names": names, "graded": g, "reverse": r, "op": name}))
                break
        # axioms straight on the returned arrays
        if not fails:
            tri = res["lt"].astype(int) + res["eq"].astype(int) + res["gt"].astype(int)
            if numpy.any(tri != 1):
                i, j = numpy.argwhere(tri != 1)[0]
                fails.append(Failure("axiom:trichotomy", "under %s for %s" % (setting, render(i, j))))
            elif rows is None:
                lt = res["lt"]
                if numpy.any(lt & lt.T):
                    fails.append(Failure("axiom:antisymmetry", "a<b and b<a under %s" % setting))
                else:
                    two = (lt.astype(numpy.int32) @ lt.astype(numpy.int32)) > 0
                    if numpy.any(two & ~lt):
                        i, j = numpy.argwhere(two & ~lt)[0]
                        fails.append(Failure("axiom:transitivity", "under %s for %s" % (setting, render(i, j))))
        # maximum / minimum
        if not fails:
            try:
                mx = numpoly.maximum(A[:, None], U[None, :])
                mn = numpy.minimum(A[:, None], U[None, :])
                tmx = coef_tensor(mx, names, monos)
                tmn = coef_tensor(mn, names, monos)
            except MalformedPoly as err:
                return [Failure("maximum:malformed", str(err))]
            except Exception as err:
                return [Failure("maximum:exception:%s" % type(err).__name__, repr(err))]
            big = numpy.where((sign >= 0)[..., None], CA[:, None, :], C[None, :, :])
            small = numpy.where((sign <= 0)[..., None], CA[:, None, :], C[None, :, :])
            for nm, got, exp in (("maximum", tmx, big), ("minimum", tmn, small)):
                if got.shape != exp.shape or numpy.any(got != exp):
                    bad = numpy.argwhere(numpy.any(got != exp, axis=-1)) if got.shape == exp.shape else [[0, 0]]
                    i, j = bad[0]
                    fails.append(Failure("%s:reference:%s" % (nm, "reverse" if r else "plain"),
                                         "%s under %s for %s" % (nm, setting, render(i, j))))
                    break
    npairs = len(CA) * n
    ctx.add_evals(npairs * 8, int((sign != 0).sum()))
    ctx.label("universe:%s:%s" % (case["universe"], setting))
    return fails


@st.composite
def random_case(draw):
    nvars = draw(st.sampled_from([2, 3, 3, 3, 4]))
    names = ["q0", "q1", "q2", "q3"][:nvars] if draw(st.booleans()) else sorted(
        draw(st.lists(st.sampled_from(gen.NAME_POOL), min_size=nvars, max_size=nvars, unique=True)), key=gen.var_num)
    if draw(st.integers(0, 3)) == 0:
        # the operands store their indeterminates in one common tuple that is not in index order (as
        # symbols("q1,q0"), set_dimensions or names= produce): the order is one of polynomials, not of layouts
        names = list(draw(st.permutations(names)))
    deg = draw(st.integers(2, 5 if nvars <= 3 else 3))
    monos = [list(e) for e in itertools.product(range(deg + 1), repeat=nvars) if sum(e) == deg]
    low = [list(e) for e in itertools.product(range(deg), repeat=nvars) if sum(e) < deg]
    # many terms in several grades, so that tie-breaking inside a grade decides (an
    # unstable sort only reorders ties when the grade sequence is mixed)
    allm = monos + low
    if draw(st.booleans()):
        nrows = draw(st.integers(min(6, len(allm)), min(32, len(allm))))
        rows = draw(st.lists(st.sampled_from(allm), min_size=nrows, max_size=nrows, unique_by=tuple))
    else:
        ntop = draw(st.integers(min(3, len(monos)), min(20, len(monos))))
        top = draw(st.lists(st.sampled_from(monos), min_size=ntop, max_size=ntop, unique_by=tuple))
        rest = draw(st.lists(st.sampled_from(low), min_size=0, max_size=4, unique_by=tuple)) if low else []
        rows = top + rest
    kind = draw(st.sampled_from(["i", "f"]))
    # narrow / unsigned storage with values at the type's limits: the order is decided by the coefficients'
    # values, which differences in the storage type do not represent
    narrow = draw(st.sampled_from([None, None, None, None, "uint8", "uint64", "int8"]))
    NARROW_POOL = {"uint8": [0, 1, 2, 200, 255, 254], "uint64": [0, 1, 3, 2 ** 63, 2 ** 64 - 1, 2 ** 63 + 5],
                   "int8": [0, 1, -1, 127, -128, 100, -100]}
    if narrow:
        kind = "i"
    target = draw(st.sampled_from([(), (2,), (3,), (2, 2), (1, 3), (2, 1, 2)]))
    n = draw(st.sampled_from([2, 2, 3]))
    ops = []
    for i in range(n):
        shp = tuple(target) if i == 0 else gen.broadcast_member(draw, target)
        size = gen.size_of(shp)
        terms = []
        for row in rows:
            cs = draw(st.lists(st.sampled_from(NARROW_POOL[narrow]) if narrow else
                               st.sampled_from([0, 1, -1, 2, 1, -2]) if kind == "i" else
                               st.sampled_from([0, 4, -4, 2, 6, -2]), min_size=size, max_size=size))
            terms.append([row, cs])
        ops.append({"names": names, "shape": list(shp), "kind": kind, "terms": terms, "retain": False})
        if narrow:
            ops[-1]["dtype"] = narrow
    mode = draw(st.sampled_from(["two", "two", "one", "free"])) if not narrow else "narrow"
    if mode == "one" and rows:
        # second operand differs from the first at exactly ONE monomial (any, also the lowest):
        # every position of the walk over the aligned terms gets to decide a verdict
        size0 = gen.size_of(tuple(ops[0]["shape"]))
        terms = [[list(t[0]), list(t[1])] for t in ops[0]["terms"]]
        for e in range(size0):
            i = draw(st.integers(0, len(rows) - 1))
            terms[i][1][e] += draw(st.sampled_from([1, -1])) * (1 if kind == "i" else 4)
        ops[1] = {"names": names, "shape": list(ops[0]["shape"]), "kind": kind, "terms": terms, "retain": False}
    elif mode == "two":
        # second operand = first one changed at exactly two monomials of one grade, so the
        # verdict hinges on the relative order of two same-grade monomials
        bygrade = {}
        for i, row in enumerate(rows):
            bygrade.setdefault(sum(row), []).append(i)
        cands = [v for v in bygrade.values() if len(v) >= 2]
        if cands:
            size0 = gen.size_of(tuple(ops[0]["shape"]))
            terms = [[list(t[0]), list(t[1])] for t in ops[0]["terms"]]
            for e in range(size0):
                grp = draw(st.sampled_from(cands))
                i, j = draw(st.lists(st.sampled_from(grp), min_size=2, max_size=2, unique=True))
                step = 1 if kind == "i" else 4
                terms[i][1][e] += step
                terms[j][1][e] -= step
            ops[1] = {"names": names, "shape": list(ops[0]["shape"]), "kind": kind, "terms": terms,
                      "retain": False}
    elif not narrow and draw(st.integers(0, 2)) == 0:
        ops[-1] = draw(gen.numeric_desc(shape=gen.broadcast_member(draw, target), kind=kind))
    g, r = draw(st.sampled_from(SETTINGS))
    return {"ops": ops, "graded": g, "reverse": r}


def strategy(tier):
    return random_case()


def check_case(case, ctx):
    if "universe" in case:
        return check_universe(case, ctx)
    if "pair" in case:
        return check_pair_replay(case, ctx)
    import numpoly

    g, r = case["graded"], case["reverse"]
    built = [build_operand(d) for d in case["ops"]]
    live = [b[0] for b in built]
    mods = [b[1] for b in built]
    nvars = sorted({v for m in mods for e in m.flat for v in e.variables()} |
                   {var_index(n) for d in case["ops"] for n in d.get("names", [])})
    fails = []
    setting = "graded=%s,reverse=%s" % (g, r)
    cls = ("graded" if g else "lex") + (",reverse" if r else "")
    nontrivial = False
    with numpoly.global_options(sort_graded=g, sort_reverse=r):
        for (a, ma), (b, mb) in itertools.combinations(list(zip(live, mods)), 2):
            if not isinstance(a, numpoly.ndpoly) and not isinstance(b, numpoly.ndpoly):
                continue
            shape = numpy.broadcast_shapes(ma.shape, mb.shape)
            A = numpy.broadcast_to(ma, shape)
            B = numpy.broadcast_to(mb, shape)
            sign = numpy.empty(shape, dtype=int)
            for idx in numpy.ndindex(*shape):
                sign[idx] = compare(A[idx], B[idx], nvars, g, r)
                if sign[idx]:
                    x, y = A[idx], B[idx]
                    keys = [k for k in set(x.d) | set(y.d) if x.d.get(k, 0) != y.d.get(k, 0)]
                    k = max(keys, key=lambda k: order_key(expvec(k, nvars), g, r))
                    lx = max(x.d, key=lambda k: order_key(expvec(k, nvars), g, r)) if x.d else None
                    ly = max(y.d, key=lambda k: order_key(expvec(k, nvars), g, r)) if y.d else None
                    grade = sum(e for _, e in k)
                    same_grade = len({m for m in set(x.d) | set(y.d) if sum(e for _, e in m) == grade})
                    if not (k == lx == ly) or same_grade >= 3:
                        nontrivial = True
            expect = {"lt": sign < 0, "le": sign <= 0, "gt": sign > 0, "ge": sign >= 0,
                      "eq": sign == 0, "ne": sign != 0}
            for name, op, npname in OPS:
                try:
                    out = numpy.asarray(op(a, b))
                    out2 = numpy.asarray(getattr(numpy, npname)(a, b))
                except Exception as err:
                    return [Failure("%s:exception:%s" % (name, type(err).__name__), repr(err))]
                if out.shape != tuple(shape) or out.dtype != bool:
                    return [Failure("%s:type" % name, "dtype %s shape %s expected bool %s" % (out.dtype, out.shape, shape))]
                if not numpy.array_equal(out, out2):
                    return [Failure("%s:spelling" % name, "operator and numpy.%s differ" % npname)]
                if not numpy.array_equal(out, expect[name]):
                    idx = tuple(numpy.argwhere(out != expect[name])[0])
                    return [Failure("%s:reference:%s" % (name, cls),
                                    "%s at %s under %s: got %s for %r vs %r" % (name, idx, setting, out[idx], A[idx], B[idx]))]
            for nm, fn, pick in (("maximum", numpoly.maximum, lambda s: s >= 0), ("minimum", numpoly.minimum, lambda s: s <= 0)):
                try:
                    got = to_model(fn(a, b))
                except MalformedPoly as err:
                    return [Failure("%s:malformed" % nm, str(err))]
                except Exception as err:
                    return [Failure("%s:exception:%s" % (nm, type(err).__name__), repr(err))]
                exp = numpy.empty(shape, dtype=object)
                for idx in numpy.ndindex(*shape):
                    exp[idx] = A[idx] if pick(sign[idx]) else B[idx]
                diff = first_diff(got, exp)
                if diff:
                    return [Failure("%s:reference:%s" % (nm, "reverse" if r else "plain"), "%s under %s: %s" % (nm, setting, diff))]
    ctx.label("setting:" + setting)
    ctx.label("n-operands:%d" % len(live))
    if any("num" in d for d in case["ops"]):
        ctx.label("numeric-operand")
    if any(list(d["names"]) != sorted(d["names"], key=gen.var_num) for d in case["ops"] if d.get("names")):
        ctx.label("names:not-index-ordered")
    if any(d.get("dtype") for d in case["ops"]):
        ctx.label("storage:" + next(d["dtype"] for d in case["ops"] if d.get("dtype")))
    ctx.nontrivial(nontrivial)
    return fails


def check_pair_replay(case, ctx):
    """Replay of one enumerated pair (minimal case produced by check_universe)."""
    import numpoly

    monos, names = case["monos"], case["names"]
    C = numpy.array(case["pair"], dtype=int)
    U = numpoly.polynomial_from_attributes(monos, [C[:, i] for i in range(len(monos))], names,
                                           retain_coefficients=True, retain_names=True)
    sign = ref_sign(C, [tuple(m) for m in monos], case["graded"], case["reverse"])[0, 1]
    expect = {"lt": sign < 0, "le": sign <= 0, "gt": sign > 0, "ge": sign >= 0, "eq": sign == 0, "ne": sign != 0}
    with numpoly.global_options(sort_graded=case["graded"], sort_reverse=case["reverse"]):
        for name, op, npname in OPS:
            got = bool(op(U[0], U[1]))
            if got != bool(expect[name]):
                cls = ("graded" if case["graded"] else "lex") + (",reverse" if case["reverse"] else "")
                return [Failure("%s:reference:%s" % (name, cls), "%s gives %s for %s" % (name, got, case["pair"]))]
    ctx.nontrivial(True)
    return []
