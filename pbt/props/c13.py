"""C13 Pickle, copy and text save/load round-trip polynomial arrays."""
import copy
import io
import os
import pathlib
import pickle
import tempfile

import numpy
from hypothesis import strategies as st

from .. import gen
from ..conv import build_checked, snapshot, to_model, MalformedPoly
from ..core import Failure
from ..model import MP, mp_close

ID = "C13"
BUDGET = {"quick": 2000, "thorough": 10000}
TECHNIQUE = ("Hypothesis-generated polynomial arrays x pickle protocols / copy flavours / savetxt settings / path-or-"
             "file-object kinds: round-trip oracle (byte snapshots for pickle/copy, values to format precision for text) "
             "and a differential with numpy.loadtxt for header-less files")
LEVEL_TEXT = ("Pickle with every protocol 0-5, copy.copy, copy.deepcopy and .copy() must reproduce shape, dtype, names, "
              "exponents and coefficients exactly (also for strided views, retained zero terms and unused names); "
              "numpoly.savetxt / numpy.savetxt followed by numpoly.loadtxt must restore shape, names and values to the "
              "precision of the format for 0-d, size-1, 1-3-d, single-term and multi-term polynomials over fmt, "
              "delimiter, header, footer and comments settings, through str paths, pathlib paths and file objects; files "
              "without the numpoly header must load exactly as numpy.loadtxt loads them.")
FUZZ_RUNS = {"thorough": 4000}  # atheris/libFuzzer campaign over the same strategy and oracle
RULE = (
    "polynomial arrays (0-d, size-1, 1-3-d, 0-5 terms incl. single-term, int and float coefficients, 1-4 names incl. "
    "q10/q12, 20% built with retained zero terms / unused names, 15% strided .T views) x one of: pickle protocol 0-5, "
    "copy.copy, copy.deepcopy, .copy() [oracle: byte snapshot equality of shape, dtype, names, keys, exponents, raw "
    "buffer]; text: savetxt with fmt in {%.18e, %.6f, %g, %d (ints)}, delimiter in {' ', ',', ';', '\\t'}, optional "
    "(multi-line) header and footer, comments in {'# ', '% ', '//'}, via numpoly.savetxt or numpy.savetxt, to a str "
    "path / pathlib.Path / StringIO / open text file, read back with numpoly.loadtxt (same delimiter/comments) [oracle: "
    "same shape, same names, model values equal within the format's precision]; plain numeric files without header: "
    "numpoly.loadtxt == numpy.loadtxt for path and file object. non-trivial = ndim != 1, or a single term, or >= 2 "
    "terms with >= 2 elements."
)
LEVEL_TEXT += (" Text round trips include exponents whose storage-key characters are Unicode white space or line separators (74, 101, 8133, 8173, 12229 ...) and files compressed by name (.gz, .bz2, .xz, .lzma), byte streams, lists / generators of lines, pipes, encodings; comment markers with or without blanks around them; the reader-side unpack= (transposed result) and usecols= (terms in another order).")
ASSUMPTIONS = [
    "text files restore values as float64 (loadtxt's default dtype); the coefficient dtype of a text round-trip is not asserted",
    "size-0 arrays are excluded (known finding, see C12)",
    "redundant all-zero terms (as alignment leaves them) may be dropped by pickle/deepcopy: __reduce__ passes retain_coefficients=False on purpose; everything else must be identical",
    "scratch files live in a TemporaryDirectory that is removed before the case ends",
]

FMTS = ["%.18e", "%.6f", "%g", "%d"]


@st.composite
def case_st(draw):
    mode = draw(st.sampled_from(["pickle", "copy", "text", "text", "text", "plain"]))
    if mode == "plain":
        shape = draw(st.sampled_from([(1,), (3,), (2, 2), (1, 3), (3, 1), (2, 3)]))
        size = gen.size_of(shape)
        vals = draw(st.lists(st.integers(-20, 20), min_size=size, max_size=size))
        return {"mode": "plain", "shape": list(shape), "values": [v / 4.0 for v in vals],
                "target": draw(st.sampled_from(["str", "path", "stringio", "file", "pipe"])),
                "remarks": draw(st.booleans()),
                "delimiter": draw(st.sampled_from([" ", ","]))}
    desc = draw(gen.poly_desc(kinds="if", max_terms=5, max_exp=3, max_ndim=3))
    if draw(st.integers(0, 3)) == 0 and desc["terms"]:
        desc["terms"] = desc["terms"][:1]  # single term
    if draw(st.integers(0, 5)) == 0 and desc["terms"]:
        # exponents whose storage-key characters are special in text: Unicode white space (59+e = 0x85, 0xA0,
        # 0x2000, 0x2028, 0x3000, ...), the delimiters, and ordinary larger ones
        e = draw(st.sampled_from([74, 101, 5701, 8133, 8135, 8173, 8174, 8180, 8228, 12229, 60, 200, 1000]))
        rows = {tuple(t[0]) for t in desc["terms"]}
        i = draw(st.integers(0, len(desc["terms"]) - 1))
        row = list(desc["terms"][i][0])
        row[draw(st.integers(0, len(row) - 1))] = e
        if tuple(row) not in rows:
            desc["terms"][i][0] = row
    case = {"mode": mode, "poly": desc,
            "view": bool(len(desc["shape"]) >= 2 and draw(st.integers(0, 5)) == 0)}
    if mode == "pickle":
        case["protocol"] = draw(st.integers(0, 5))
    elif mode == "copy":
        case["how"] = draw(st.sampled_from(["copy.copy", "copy.deepcopy", ".copy()"]))
    else:
        fmt = draw(st.sampled_from(FMTS))
        if fmt == "%d" and desc["kind"] != "i":
            fmt = "%.18e"
        case.update({
            "fmt": fmt,
            "delimiter": draw(st.sampled_from([" ", " ", ",", ";", "\t"])),
            "header": draw(st.sampled_from(["", "", "my header", "two\nlines", "numpoly: not really"])),
            "footer": draw(st.sampled_from(["", "", "the end"])),
            "comments": draw(st.sampled_from(["# ", "# ", "% ", "//", "#", " # ", "\t# "])),
            # reader-side arguments of numpy.loadtxt that rearrange what is read: the transposed result, and the
            # columns (one per term) taken in another order
            "load": draw(st.sampled_from([None, None, None, None, "unpack", "usecols"])),
            "writer": draw(st.sampled_from(["numpoly", "numpoly", "numpy"])),
            "target": draw(st.sampled_from(["str", "path", "stringio", "file", "str", "path", "gz", "bz2", "xz", "lzma", "bytesio", "binary-file", "lines", "generator", "pipe"])),
            "encoding": draw(st.sampled_from([None, None, None, "utf-8", "utf-16", "latin1"])),
        })
    return case


def strategy(tier):
    return case_st()


def build(case):
    desc = case["poly"]
    if case.get("view"):
        shape = tuple(desc["shape"])
        td = dict(desc)
        td["shape"] = list(shape[::-1])
        idx = numpy.arange(gen.size_of(shape)).reshape(shape).T.ravel()
        td["terms"] = [[t[0], [t[1][i] for i in idx]] for t in desc["terms"]]
        base, _ = build_checked(td)
        from ..conv import desc_model
        return base.T, desc_model(desc)
    return build_checked(desc)


def tolerance(fmt):
    return {"%.18e": 1e-15, "%.6f": 1e-6, "%g": 1e-5, "%d": 0.0}[fmt]


def _through_pipe(loader, text, kw):
    """Read from a stream that can neither tell nor seek (numpy.loadtxt reads those)."""
    r, w = os.pipe()
    with os.fdopen(w, "w") as wf:
        wf.write(text)  # (small: fits the pipe buffer)
    with os.fdopen(r, "r") as rf:
        return loader(rf, **kw)


def check_case(case, ctx):
    import numpoly

    mode = case["mode"]
    fails = []

    def fail(kind, msg):
        fails.append(Failure("%s:%s" % (mode, kind), msg))
        return fails

    if mode == "plain":
        arr = numpy.array(case["values"]).reshape(tuple(case["shape"]))
        with tempfile.TemporaryDirectory() as tmp:
            path = os.path.join(tmp, "plain.txt")
            numpy.savetxt(path, arr, delimiter=case["delimiter"])
            text = open(path).read()
            if case.get("remarks"):
                # ordinary comment lines as people write them, with and without a blank after the marker
                text = "#remark one\n# remark two\n" + text
                with open(path, "w") as fh:
                    fh.write(text)
            kw = {"delimiter": case["delimiter"]} if case["delimiter"] != " " else {}

            def load(loader):
                t = case["target"]
                if t == "str":
                    return loader(path, **kw)
                if t == "path":
                    return loader(pathlib.Path(path), **kw)
                if t == "stringio":
                    return loader(io.StringIO(text), **kw)
                if t == "pipe":
                    return _through_pipe(loader, text, kw)
                with open(path) as fh:
                    return loader(fh, **kw)

            try:
                got = load(numpoly.loadtxt)
            except Exception as err:
                return fail("exception:%s:%s" % (type(err).__name__, case["target"]), repr(err))
            want = load(numpy.loadtxt)
        if isinstance(got, numpoly.ndpoly):
            return fail("type", "a header-less file loaded as a polynomial")
        got = numpy.asarray(got)
        if got.shape != want.shape or not numpy.array_equal(got, want):
            return fail("differs-from-numpy.loadtxt:" + ("file-object" if case["target"] in ("stringio", "file") else "path"),
                        "numpoly.loadtxt gives %s, numpy.loadtxt gives %s" % (got.tolist(), want.tolist()))
        ctx.label("plain:" + case["target"])
        ctx.nontrivial(len(case["shape"]) != 1)
        return fails

    p, pm = build(case)
    if p.size == 0:
        ctx.discard_case("size-0")
        return []
    desc = case["poly"]
    nterms = len(p.keys)
    nt = p.ndim != 1 or nterms == 1 or (nterms >= 2 and p.size >= 2)
    if mode in ("pickle", "copy"):
        before = snapshot(p)
        try:
            if mode == "pickle":
                q = pickle.loads(pickle.dumps(p, protocol=case["protocol"]))
                how = "protocol"
            else:
                how = case["how"]
                q = {"copy.copy": copy.copy, "copy.deepcopy": copy.deepcopy, ".copy()": lambda x: x.copy()}[how](p)
        except Exception as err:
            return fail("exception:" + type(err).__name__, repr(err))
        if not isinstance(q, numpoly.ndpoly):
            return fail("type", repr(type(q)))
        if tuple(q.shape) != tuple(p.shape):
            return fail("shape", "shape %s became %s after %s" % (p.shape, q.shape, how))
        if q.dtype != p.dtype:
            return fail("dtype", "dtype %s became %s after %s" % (p.dtype, q.dtype, how))
        if tuple(q.names) != tuple(p.names):
            return fail("names", "names %s became %s after %s" % (p.names, q.names, how))

        def terms(x):
            # explicit all-zero terms (kept by alignment) are dropped by __reduce__ on purpose
            # (retain_coefficients=False is passed explicitly): compare the non-redundant terms
            return {tuple(int(v) for v in e): numpy.asarray(c) for e, c in zip(x.exponents.tolist(), x.coefficients)
                    if numpy.any(c) or not any(e)}
        ta, tb = terms(q), terms(p)
        if sorted(k for k, v in ta.items() if numpy.any(v)) != sorted(k for k, v in tb.items() if numpy.any(v)):
            return fail("exponents", "exponents %s became %s after %s" % (sorted(tb), sorted(ta), how))
        for k, v in tb.items():
            if numpy.any(v) and (not numpy.array_equal(ta[k], v) or ta[k].dtype != v.dtype):
                return fail("coefficients", "coefficient of %s differs after %s" % (k, how))
        if how in ("copy.copy", ".copy()") and [str(k) for k in q.keys] != [str(k) for k in p.keys]:
            return fail("keys", "keys %s became %s after %s" % (list(p.keys), list(q.keys), how))
        if snapshot(p) != before:
            return fail("argument-modified", "the original changed")
        ctx.label("%s:%s" % (mode, case.get("protocol", case.get("how"))))
        if case.get("view"):
            ctx.label("strided-view")
        if desc.get("retain"):
            ctx.label("retained-zero-terms-or-names")
        ctx.nontrivial(nt)
        return fails

    # ---- text round trip
    kw = {"fmt": case["fmt"], "delimiter": case["delimiter"], "header": case["header"], "footer": case["footer"],
          "comments": case["comments"]}
    lkw = {"comments": case["comments"]}
    if case["delimiter"] != " ":
        lkw["delimiter"] = case["delimiter"]
    if case.get("load") == "unpack":
        lkw["unpack"] = True
        pm = pm.T  # (numpy: "the returned array is transposed")
        want_shape = tuple(p.shape)[::-1]
    else:
        want_shape = tuple(p.shape)
    if case.get("load") == "usecols":
        n = len(p.keys)
        k = 1 + sum(case["poly"]["shape"]) % max(n - 1, 1)
        lkw["usecols"] = [(i + k) % n for i in range(n)]  # every column, rotated
    writer = numpoly.savetxt if case["writer"] == "numpoly" else numpy.savetxt
    cls = []
    if p.ndim == 0:
        cls.append("0-d")
    if nterms == 1:
        cls.append("single-term")
    if p.size == 1 and p.ndim:
        cls.append("size-1")
    cls = ",".join(cls) or "general"
    with tempfile.TemporaryDirectory() as tmp:
        path = os.path.join(tmp, "poly.txt")
        t = case["target"]
        enc = case.get("encoding") if t in ("str", "path", "gz", "bz2", "xz", "lzma") else None
        if enc == "latin1" and any(ord(ch) > 255 for ch in "".join(str(k) for k in p.keys) + case["header"] + case["footer"]):
            enc = None  # (latin1 cannot hold these keys: numpy.savetxt itself raises)
        if enc == "utf-16" and t in ("xz", "lzma", "bz2"):
            enc = None  # (numpy's own writer/reader pair fails for this combination)
        if enc:
            kw["encoding"] = enc
            lkw["encoding"] = enc
            if enc != "utf-8" and case["header"]:
                kw["header"] = case["header"] + " \u00e9"  # a character whose bytes differ between the encodings
        if t in ("gz", "bz2", "xz", "lzma"):
            # numpy.savetxt compresses by file name and numpy.loadtxt reads such files transparently
            path = path + "." + t
        try:
            if t in ("str", "gz", "bz2", "xz", "lzma", "lines", "generator", "pipe"):
                writer(path, p, **kw)
            elif t == "bytesio":
                buf = io.BytesIO()
                writer(buf, p, **kw)
                with open(path, "wb") as fh:
                    fh.write(buf.getvalue())
            elif t == "binary-file":
                with open(path, "wb") as fh:
                    writer(fh, p, **kw)
            elif t == "path":
                writer(pathlib.Path(path), p, **kw)
            elif t == "stringio":
                buf = io.StringIO()
                writer(buf, p, **kw)
                with open(path, "w") as fh:
                    fh.write(buf.getvalue())
            else:
                with open(path, "w") as fh:
                    writer(fh, p, **kw)
        except Exception as err:
            if t in ("bytesio", "binary-file") and isinstance(err, UnicodeEncodeError):
                # numpy.savetxt writes latin1 to byte streams: keys beyond U+00FF cannot be written there,
                # and an error is what the properties ask for in that case
                ctx.discard_case("byte-stream-cannot-hold-the-keys")
                return []
            return fail("savetxt-exception:%s:%s" % (type(err).__name__, cls), repr(err))
        import bz2
        import gzip
        import lzma
        opener = {"gz": gzip.open, "bz2": bz2.open, "xz": lzma.open, "lzma": lzma.open}.get(t, open)
        with opener(path, "rt", encoding=enc or ("latin1" if t in ("bytesio", "binary-file") else None)) as fh:
            text = fh.read()
        try:
            if t in ("str", "gz", "bz2", "xz", "lzma"):
                q = numpoly.loadtxt(path, **lkw)
            elif t == "lines":
                # (split at "\n" only: str.splitlines would also break at U+0085, U+2028, U+2029 ... inside keys)
                q = numpoly.loadtxt([line + "\n" for line in text.split("\n")], **lkw)
            elif t == "generator":
                q = numpoly.loadtxt((line for line in text.split("\n")), **lkw)
            elif t == "pipe":
                q = _through_pipe(numpoly.loadtxt, text, lkw)
            elif t == "bytesio":
                with open(path, "rb") as fh:
                    q = numpoly.loadtxt(io.BytesIO(fh.read()), **lkw)
            elif t == "binary-file":
                with open(path, "rb") as fh:
                    q = numpoly.loadtxt(fh, **lkw)
            elif t == "path":
                q = numpoly.loadtxt(pathlib.Path(path), **lkw)
            elif t == "stringio":
                q = numpoly.loadtxt(io.StringIO(text), **lkw)
            else:
                with open(path) as fh:
                    q = numpoly.loadtxt(fh, **lkw)
        except Exception as err:
            return fail("loadtxt-exception:%s:%s" % (type(err).__name__, cls), "%r\nfile:\n%s" % (err, text[:300]))
    if not isinstance(q, numpoly.ndpoly):
        return fail("type:" + cls, "loadtxt returned %r for a file with the numpoly header (comments=%r)"
                    % (type(q), case["comments"]))
    if case.get("load"):
        cls += "," + case["load"]
    if tuple(q.shape) != want_shape:
        return fail("shape:" + cls, "shape %s restored as %s (%s)" % (p.shape, q.shape, lkw))
    if tuple(q.names) != tuple(p.names):
        return fail("names:" + cls, "names %s restored as %s" % (p.names, q.names))
    try:
        qm = to_model(q)
    except MalformedPoly as err:
        return fail("malformed:" + cls, str(err))
    tol = tolerance(case["fmt"])
    for idx in numpy.ndindex(*pm.shape):
        if not mp_close(qm[idx], pm[idx], max(tol, 1e-15), pm[idx].maxabs()):
            return fail("value:" + cls, "at %s: %r restored as %r (fmt %s)" % (idx, pm[idx], qm[idx], case["fmt"]))
    ctx.label("text:" + cls)
    ctx.label("text:target:" + t)
    ctx.label("text:fmt:" + case["fmt"])
    ctx.label("text:writer:" + case["writer"])
    if case["comments"] != "# ":
        ctx.label("text:custom-comments")
    if case["delimiter"] != " ":
        ctx.label("text:custom-delimiter")
    if case.get("view"):
        ctx.label("strided-view")
    ctx.nontrivial(nt)
    return fails
