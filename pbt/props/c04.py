"""C04 Alignment changes representation only."""
import numpy
from hypothesis import strategies as st

from .. import gen
from ..conv import build_operand, to_model, snapshot, MalformedPoly, var_index
from ..core import Failure
from ..model import first_diff

ID = "C04"
BUDGET = {"quick": 700, "thorough": 8000}
TECHNIQUE = 'Hypothesis-generated operand tuples vs model equality + structural predicates + idempotence/aliasing snapshots'
LEVEL_TEXT = 'Each of the four align functions is called on 1-4 generated operands (one third under non-default retain/sort options); results must be model-equal to the inputs, share shape/names/exponents/keys as applicable, be idempotent and leave the arguments byte-identical.'
RULE = (
    "tuples of 1-4 polynomial-likes (polynomial arrays 0-d..3-d with 1-4 names in equal/overlapping/"
    "disjoint sets, 0-6 terms, int/float/complex; Python numbers, lists, ndarrays) drawn from one "
    "broadcast family, passed to each of align_polynomials, align_shape, align_indeterminants, "
    "align_exponents, one third of the calls under non-default retain_*/sort_* options. Oracle: results in argument order, each model-equal to its input (broadcast "
    "to the common shape where shape is aligned), common shape / common name tuple (numeric-suffix "
    "order) / identical exponent rows and keys as applicable, idempotence by byte snapshots, inputs "
    "unchanged by byte snapshots. non-trivial = >= 2 operands that differ in names, shape or term set."
)
ASSUMPTIONS = [
    "a non-polynomial operand contributes either no name or the default name q0 to the union "
    "(aspolynomial gives constants the name q0); both are accepted",
    "each aligned polynomial keeps its input's coefficient dtype (bool/int64/float64/complex128 inputs)",
]

FUNCS = ["align_polynomials", "align_shape", "align_indeterminants", "align_exponents"]


@st.composite
def case_st(draw):
    n = draw(st.sampled_from([1, 2, 2, 2, 3, 3, 4]))
    ops = draw(gen.operand_family(n=n, numeric_prob=0.2, max_terms=6, max_exp=3,
                                  kinds=draw(st.sampled_from(["ifc", "ifc", "ifcb", "b"]))))
    polys = [d for d in ops if "num" not in d]
    if polys and draw(st.integers(0, 4)) == 0:
        # every polynomial operand stores the same name tuple, which is not in index order
        # (symbols("q1,q0"), names=(...), set_dimensions produce such): alignment still ends in index order
        D = draw(st.integers(2, 3))
        tup = list(draw(st.permutations(sorted(draw(st.lists(st.sampled_from(gen.NAME_POOL), min_size=D, max_size=D,
                                                            unique=True)), key=gen.var_num)[::-1])))
        for d in polys:
            old = list(d["names"])
            d["names"] = tup
            d["terms"] = [[[(t[0][j] if j < len(old) else 0) for j in range(D)], t[1]] for t in d["terms"]]
            seen, terms = set(), []
            for t in d["terms"]:
                if tuple(t[0]) not in seen:
                    seen.add(tuple(t[0]))
                    terms.append(t)
            d["terms"] = terms
    opts = {}
    if draw(st.integers(0, 2)) == 0:
        opts = draw(st.dictionaries(
            st.sampled_from(["retain_names", "retain_coefficients", "sort_graded", "sort_reverse"]),
            st.booleans(), min_size=1, max_size=4))
    return {"func": draw(st.sampled_from(FUNCS)), "ops": ops, "opts": opts}


def strategy(tier):
    return case_st()


def check_case(case, ctx):
    import numpoly

    fname = case["func"]
    func = getattr(numpoly, fname)
    built = [build_operand(d) for d in case["ops"]]
    live = [b[0] for b in built]
    models = [b[1] for b in built]
    before = [snapshot(x) for x in live]
    fails = []

    def fail(kind, msg):
        fails.append(Failure("%s:%s" % (fname, kind), msg))
        return fails

    optset = case.get("opts") or {}
    try:
        with numpoly.global_options(**optset):
            out = func(*live)
    except Exception as err:
        return fail("exception:" + type(err).__name__, repr(err))
    after = [snapshot(x) for x in live]
    if before != after:
        idx = [i for i, (a, b) in enumerate(zip(before, after)) if a != b]
        return fail("argument-modified", "argument(s) %s changed by the call" % idx)
    if not isinstance(out, (tuple, list)) or len(out) != len(live):
        return fail("arity", "returned %r for %d arguments" % (type(out), len(live)))
    for i, o in enumerate(out):
        if not isinstance(o, numpoly.ndpoly):
            return fail("type", "result %d is %r" % (i, type(o)))
    common = numpy.broadcast_shapes(*[m.shape for m in models])
    aligns_shape = fname in ("align_polynomials", "align_shape")
    aligns_names = fname != "align_shape"
    aligns_exps = fname in ("align_polynomials", "align_exponents")
    try:
        got = [to_model(o) for o in out]
    except MalformedPoly as err:
        return fail("malformed", str(err))
    for i, (g, m) in enumerate(zip(got, models)):
        expect = numpy.broadcast_to(m, common) if aligns_shape else m
        if tuple(out[i].shape) != tuple(expect.shape):
            return fail("shape", "result %d has shape %s, expected %s" % (i, out[i].shape, expect.shape))
        diff = first_diff(g, expect)
        if diff:
            return fail("value", "result %d is not its input: %s" % (i, diff))
    # an aligned result denotes its input: same coefficient dtype
    from ..conv import desc_dtype
    for i, (o, d) in enumerate(zip(out, case["ops"])):
        if "num" not in d and str(o.dtype) != desc_dtype(d):
            return fail("dtype", "result %d has dtype %s, its input %s" % (i, o.dtype, desc_dtype(d)))
    poly_names = set()
    for d in case["ops"]:
        if "num" not in d:
            poly_names |= set(d["names"])
    has_numeric = any("num" in d for d in case["ops"])
    if aligns_names:
        opts = [tuple(sorted(poly_names, key=var_index))] if poly_names else []
        if has_numeric or not poly_names:
            opts.append(tuple(sorted(poly_names | {"q0"}, key=var_index)))
        for i, o in enumerate(out):
            if tuple(o.names) != tuple(out[0].names):
                return fail("names-differ", "result %d names %s vs %s" % (i, o.names, out[0].names))
        common_names = tuple(out[0].names)
        if not optset.get("retain_names", True):
            # unused names may be dropped on the way (retain option): any numerically
            # ordered tuple between the used names and the full union is acceptable
            used = {v for m in models for e in m.flat for v in e.variables()}
            full = poly_names | {"q0"}
            idx = [var_index(n) for n in common_names]
            ok = (idx == sorted(idx) and len(set(idx)) == len(idx) and set(common_names) <= full
                  and used <= set(idx))
            if not ok and common_names not in opts:
                return fail("names-union", "common names %s not between used %s and union %s"
                            % (common_names, sorted(used), sorted(full)))
        elif common_names not in opts:
            return fail("names-union", "common names %s, expected one of %s" % (out[0].names, opts))
    elif optset.get("retain_names", True):
        # (with retain_names=False unused names may legitimately be dropped: C15/C03)
        for i, (o, d) in enumerate(zip(out, case["ops"])):
            if "num" not in d and tuple(o.names) != tuple(live[i].names):
                return fail("names-changed", "align_shape changed names of %d: %s -> %s"
                            % (i, live[i].names, o.names))
    if aligns_exps:
        e0 = numpy.asarray(out[0].exponents)
        k0 = [str(k) for k in out[0].keys]
        for i, o in enumerate(out[1:], 1):
            e = numpy.asarray(o.exponents)
            if e.shape != e0.shape or not numpy.array_equal(e, e0):
                return fail("exponents-differ", "result %d exponent rows differ from result 0" % i)
            if [str(k) for k in o.keys] != k0:
                return fail("keys-differ", "result %d keys differ from result 0" % i)
    # idempotence
    snap1 = [snapshot(o) for o in out]
    try:
        with numpoly.global_options(**optset):
            again = func(*out)
    except Exception as err:
        return fail("idempotence-exception:" + type(err).__name__, repr(err))
    snap2 = [snapshot(o) for o in again]
    if snap1 != snap2:
        return fail("not-idempotent", "aligning the aligned output changed its representation")
    if [snapshot(o) for o in out] != snap1:
        return fail("output-modified-by-second-call", "first output changed when aligned again")

    # labels
    ctx.label("func:" + fname)
    for k, v in sorted(optset.items()):
        if v != numpoly.get_options(defaults=True)[k]:
            ctx.label("option:%s=%s" % (k, v))
    descs = case["ops"]
    differs = False
    if len(descs) >= 2:
        shapes = {tuple(d.get("shape", ())) if d.get("num") not in ("pyint", "pyfloat", "pycomplex", "pybool", "npscalar") else () for d in descs}
        names = {tuple(d.get("names", ())) for d in descs}
        rows = {tuple(sorted(tuple(t[0]) for t in d.get("terms", []))) for d in descs}
        if len(shapes) > 1:
            ctx.label("shapes-differ")
            differs = True
        if len(names) > 1:
            ctx.label("names-differ")
            differs = True
        if len(rows) > 1:
            ctx.label("termsets-differ")
            differs = True
    if has_numeric:
        ctx.label("numeric-operand")
    ctx.label("n=%d" % len(descs))
    ctx.nontrivial(differs)
    return fails
