"""C05 Polynomial division terminates and satisfies dividend = q*divisor + r."""
import numpy
from hypothesis import strategies as st

from .. import gen, hooks
from ..conv import build_checked, build_operand, to_model, snapshot, MalformedPoly, var_index
from ..core import Failure
from ..model import MP, arr_map, mp_close

ID = "C05"
BUDGET = {"quick": 600, "thorough": 2500}
TECHNIQUE = ("Hypothesis-generated dividend/divisor classes with a loop-state monitor (repeated digest = "
             "non-termination witness) vs division identity, cofactor and degree oracles in the exact model; "
             "operator/function differential")
LEVEL_TEXT = ("Dividend/divisor pairs from seven classes (random, exact multiples, multiple+remainder, constant "
              "divisors incl. zero entries, univariate, incomparable top terms, arrays with per-element different "
              "leading terms) are divided with the loop monitor armed; the identity, true-quotient, cofactor and "
              "degree conditions are checked in the model and / % divmod (also reflected) are compared with poly_*.")
FUZZ_RUNS = {"thorough": 1500}  # atheris/libFuzzer campaign over the same strategy and oracle
RULE = (
    "dividend/divisor pairs over 1-3 indeterminates (q0,q1,q2), shapes 0-d..2-d with broadcasting, int and float "
    "coefficients, from the classes random / exact-multiple (cofactor*divisor built in numpoly and in the model) / "
    "multiple-plus-remainder / constant-divisor (with zero entries) / univariate / incomparable-top-terms "
    "(e.g. q1**2-2*q0) / per-element-different-leading-terms / plain non-integral numbers, lists and ndarrays on the "
    "left of an (often integer, often constant) polynomial. With the division-loop monitor armed: the call "
    "returns (a repeated loop state is a non-termination witness, 400 candidate searches - an order of magnitude above any terminating run at these sizes - are reported as cap-without-repeat); dividend == "
    "q*divisor + r in the model (tolerance 1e-8*scale); non-zero constant divisor element => q is the true quotient "
    "and r == 0; exact multiple => r == 0 and q == cofactor; one indeterminate => deg r < deg divisor; / % divmod "
    "and reflected forms are representation-identical to poly_divide/poly_remainder/poly_divmod. "
    "non-trivial = the monitor saw >= 2 candidate searches (>= 1 subtraction step) and the divisor is not constant."
    " The narrow-float class also carries complex64 operands and exact multiples scaled by 2**-34..2**-44 (tolerance floor scaled alike)."
)
LEVEL_TEXT += (" Operands that share one name tuple stored out of index order (symbols('q1,q0'), set_dimensions) form their own class; numpy scalars on the left of / % divmod are generated too (known finding). A class of half / single precision operands whose quotient coefficients leave the half-precision range (divided in double precision).")
ASSUMPTIONS = [
    "float comparison tolerance 1e-8 * max(1, coefficient magnitude bound)",
    "for a zero divisor element only the identity is required",
    "cofactor/degree conditions only where the divisor element is non-zero",
    "harness-side loop monitor (pbt/hooks.py) wraps get_division_candidate; determinism of the loop in its state makes a repeated digest a proof of non-termination",
]

NAMES = ["q0", "q1", "q2"]
CLASSES = ["random", "exact-multiple", "multiple-plus-remainder", "constant-divisor", "univariate",
           "incomparable-top", "per-element-leading", "number-on-the-left", "unordered-names", "divisor-only-name",
           "narrow-float"]
SPELL = ["function", "function", "operators", "reflected"]


def lead_coef():
    return st.sampled_from([1, 1, -1, 2, -2, 4, 1, 3, -5])


@st.composite
def small_poly(draw, names, shape, kind, max_terms=3, max_exp=2, min_terms=1, nice_lead=True):
    d = draw(gen.poly_desc(names=names, shape=shape, kind=kind, max_terms=max_terms, max_exp=max_exp,
                           min_terms=min_terms, retain=False))
    return d


@st.composite
def case_st(draw):
    cls = draw(st.sampled_from(CLASSES))
    kind = draw(st.sampled_from(["i", "i", "f"]))
    target = draw(st.sampled_from([(), (), (2,), (3,), (1, 2), (2, 2), (2, 1)]))
    shp_a = tuple(target) if draw(st.booleans()) else gen.broadcast_member(draw, target)
    shp_b = tuple(target) if draw(st.booleans()) else gen.broadcast_member(draw, target)
    if cls == "univariate":
        names = [draw(st.sampled_from(NAMES))]
    else:
        names = sorted(draw(st.lists(st.sampled_from(NAMES), min_size=1, max_size=3, unique=True)),
                       key=gen.var_num)
        if len(names) >= 2 and draw(st.integers(0, 3)) == 0:
            # both operands store their indeterminates in the same, not index-ordered, tuple
            # (symbols("q1,q0"), set_dimensions, polynomial_from_attributes(names=...) produce such)
            names = names[::-1] if len(names) == 2 else list(draw(st.permutations(names)))
    case = {"cls": cls, "spelling": draw(st.sampled_from(SPELL))}
    if draw(st.integers(0, 2)) == 0:
        # the division must terminate and be right under every setting of the options that touch it
        # (retain_coefficients=True only makes it slow - exponentially so - and is left to C15's fixed programs)
        case["opts"] = draw(st.sampled_from([{"retain_names": False}, {"retain_names": False}, {"sort_graded": False},
                                             {"sort_reverse": True}, {"retain_names": False, "sort_reverse": True}]))
    size_b = gen.size_of(shp_b)
    if cls == "divisor-only-name":
        # an array divisor that brings a name the dividend does not have, with leading coefficients whose
        # reciprocal is not exact in floating point; elements that are reduced sit next to elements that are not
        dn = draw(st.sampled_from(["q0", "q1"]))
        other = draw(st.sampled_from(["q2", "q5"] if dn == "q1" else ["q1", "q3"]))
        n = draw(st.integers(2, 3))
        lead = draw(st.lists(st.sampled_from([196, 12, 28, 3, 40, 0]), min_size=n, max_size=n))
        oth = [draw(st.sampled_from([4, 8, -4])) if v == 0 or draw(st.integers(0, 2)) == 0 else 0 for v in lead]
        const = draw(st.lists(st.sampled_from([0, 0, 4, -12]), min_size=n, max_size=n))
        case["dividend"] = {"names": [dn], "shape": [] if draw(st.booleans()) else [n], "kind": "f", "retain": False,
                            "terms": [[[draw(st.integers(1, 3))], [4] * (1 if True else n)], [[0], [draw(st.sampled_from([0, 4, 20]))]]]}
        if case["dividend"]["shape"]:
            case["dividend"]["terms"] = [[t[0], t[1] * n] for t in case["dividend"]["terms"]]
        case["divisor"] = {"names": [dn, other], "shape": [n], "kind": "f", "retain": False,
                           "terms": [[[1, 0], lead], [[0, 1], oth], [[0, 0], const]]}
        case["opts"] = draw(st.sampled_from([{"retain_names": False}, {"retain_names": False}, {}]))
        return case
    if cls == "narrow-float":
        # half and single precision operands (all values exact in that width) whose quotient coefficients leave
        # the half-precision range: the quotient is a double, the division must end and be right
        n = draw(st.sampled_from(NAMES))
        variant = draw(st.sampled_from(["range", "range", "complex64", "tiny"]))
        if variant == "complex64":
            # single precision complex operands are widened to double precision *complex*
            cs = st.tuples(st.sampled_from([2, -2, 4, 1, 0, 6]), st.sampled_from([2, -2, 1, 4, -6])).map(list)
            case["dividend"] = {"names": [n], "shape": [], "kind": "c", "dtype": "complex64", "retain": False,
                                "terms": [[[2], [draw(cs)]], [[1], [draw(cs)]], [[0], [draw(cs)]]]}
            case["divisor"] = {"names": [n], "shape": [], "kind": "c", "dtype": "complex64", "retain": False,
                               "terms": [[[1], [[2, 0]]], [[0], [draw(cs)]]]}
            return case
        if variant == "tiny":
            # (a q + b)(q + d) * 2**-s: an exact multiple with coefficients around 1e-13 .. 1e-10; scaling by a
            # power of two is exact, so the division must go through as for the unscaled operands
            a, b = draw(st.sampled_from([1, 2, 3, -2])), draw(st.sampled_from([1, -1, 2, 5]))
            d, sh = draw(st.sampled_from([1, -1, 2, 3])), draw(st.sampled_from([34, 40, 44]))
            case["dividend"] = {"names": [n], "shape": [], "kind": "f", "retain": False,
                                "terms": [[[2], [[4 * a, sh]]], [[1], [[4 * (a * d + b), sh]]], [[0], [[4 * b * d, sh]]]]}
            case["divisor"] = {"names": [n], "shape": [], "kind": "f", "retain": False,
                               "terms": [[[1], [4]], [[0], [4 * d]]]}
            case["tiny"] = sh
            return case
        dt = draw(st.sampled_from(["float16", "float16", "float32"]))
        c = draw(st.sampled_from([60000, 40000, 32768, 2048]))
        d0 = draw(st.sampled_from([4, 8, -4, 12]))
        case["dividend"] = {"names": [n], "shape": [], "kind": "f", "dtype": dt, "retain": False,
                            "terms": [[[2], [c * 4]], [[1], [4]]] + ([[[0], [draw(st.sampled_from([4, -8, 20]))]]] if draw(st.booleans()) else [])}
        case["divisor"] = {"names": [n], "shape": [], "kind": "f", "dtype": dt, "retain": False,
                           "terms": [[[1], [1]], [[0], [d0]]]}
        return case
    if cls == "unordered-names":
        # both operands carry the same name tuple in non-index order and are linear in both indeterminates,
        # so that every storage key also names a term when the columns are read in the other order
        names = draw(st.sampled_from([["q1", "q0"], ["q2", "q0"], ["q10", "q2"], ["q2", "q1", "q0"], ["q1", "q2", "q0"]]))
        D = len(names)
        size_a = gen.size_of(shp_a)
        rows = [[1 if i == j else 0 for i in range(D)] for j in range(D)] + [[0] * D]

        def lin(size, lo):
            return [[list(r), draw(st.lists(st.integers(lo, 3), min_size=size, max_size=size))] for r in rows]
        case["dividend"] = {"names": names, "shape": list(shp_a), "kind": "i", "terms": lin(size_a, -3), "retain": False}
        terms = lin(size_b, -3)
        terms[0][1] = draw(st.lists(st.sampled_from([1, -1, 2, -2]), min_size=size_b, max_size=size_b))
        case["divisor"] = {"names": names, "shape": list(shp_b), "kind": "i", "terms": terms[:draw(st.integers(2, D + 1))],
                           "retain": False}
        return case
    if cls == "constant-divisor":
        vals = draw(st.lists(st.sampled_from([1, 2, -2, 4, 0, -1, 3, 5] if kind == "i" else [4, 8, -8, 2, 0, 16, 6]),
                             min_size=size_b, max_size=size_b))
        how = draw(st.sampled_from(["poly", "poly", "number"]))
        if how == "number":
            case["divisor"] = {"num": "array" if shp_b else ("pyint" if kind == "i" else "pyfloat"),
                               "shape": list(shp_b), "kind": kind, "values": vals}
        else:
            case["divisor"] = {"names": [names[0]], "shape": list(shp_b), "kind": kind,
                               "terms": [[[0], vals]], "retain": False}
    elif cls == "incomparable-top":
        if len(names) < 2:
            names = ["q0", "q1"]
        # divisor with several componentwise-incomparable top terms, e.g. q1**2 - 2*q0
        e1 = draw(st.integers(1, 2))
        e2 = draw(st.integers(1, 2))
        rows = [[0] * len(names) for _ in range(2)]
        rows[0][-1] = e1 + draw(st.integers(0, 1))
        rows[1][0] = e2
        c1 = draw(st.lists(lead_coef(), min_size=size_b, max_size=size_b))
        c2 = draw(st.lists(st.integers(-3, 3), min_size=size_b, max_size=size_b))
        terms = [[rows[0], c1], [rows[1], c2]]
        if draw(st.booleans()):
            terms.append([[0] * len(names), draw(st.lists(st.integers(-2, 2), min_size=size_b, max_size=size_b))])
        case["divisor"] = {"names": names, "shape": list(shp_b), "kind": "i", "terms": terms, "retain": False}
        kind = "i"
    elif cls == "per-element-leading":
        if not shp_b:
            shp_b = (2,)
            size_b = 2
            target = numpy.broadcast_shapes(target, shp_b) if target in ((), (2,), (1, 2), (2, 2)) else (2,)
            shp_a = tuple(target)
        case["divisor"] = draw(gen.poly_desc(names=names, shape=shp_b, kind=kind, max_terms=4, max_exp=2,
                                             min_terms=2, retain=False))
    else:
        case["divisor"] = draw(gen.poly_desc(names=names, shape=shp_b, kind=kind, max_terms=3, max_exp=2,
                                             min_terms=1, retain=False))
    if cls == "number-on-the-left":
        # plain (non-integral) numbers on the left of / % divmod, polynomial (often int, often constant) on the right
        size_a = gen.size_of(shp_a)
        how = draw(st.sampled_from(["array", "list", "pyfloat", "pyint", "npscalar"]))
        akind = "i" if how == "pyint" else draw(st.sampled_from(["f", "f", "i"]))
        if how in ("pyfloat", "pyint", "npscalar"):
            shp_a = ()
            size_a = 1
        vals = draw(st.lists(st.sampled_from([30, 15, -6, 7, 2, 0, 9, -13] if akind == "f" else [7, 3, -4, 0, 9]),
                             min_size=size_a, max_size=size_a))
        case["dividend"] = {"num": how, "shape": list(shp_a), "kind": akind, "values": vals}
        case["spelling"] = "reflected"
        if draw(st.booleans()):
            case["divisor"] = {"names": [names[0]], "shape": list(shp_b), "kind": draw(st.sampled_from(["i", "i", "f"])),
                               "terms": [[[0], draw(st.lists(st.sampled_from([1, 2, -2, 4, 3]), min_size=size_b,
                                                             max_size=size_b))]], "retain": False}
        return case
    if cls in ("exact-multiple", "multiple-plus-remainder") or (
            cls in ("univariate", "incomparable-top", "per-element-leading") and draw(st.booleans())):
        case["cofactor"] = draw(gen.poly_desc(names=names, shape=shp_a, kind=kind, max_terms=3, max_exp=2,
                                              min_terms=1, retain=False))
        if cls != "exact-multiple" and draw(st.integers(0, 2)) > 0:
            case["rem"] = draw(gen.poly_desc(names=names, shape=shp_a, kind=kind, max_terms=2, max_exp=1,
                                             retain=False))
    else:
        case["dividend"] = draw(gen.poly_desc(names=names, shape=shp_a, kind=kind, max_terms=4, max_exp=3,
                                              retain=False))
    return case


def strategy(tier):
    return case_st()


def check_case(case, ctx):
    import numpoly

    fails = []
    cls = case["cls"]

    def fail(kind, msg):
        fails.append(Failure("poly_divmod:%s" % kind, msg))
        return fails

    dv, dvm = build_operand(case["divisor"])
    cof = cofm = None
    if "cofactor" in case:
        cof, cofm = build_checked(case["cofactor"])
        dd = cof * dv
        ddm = arr_map(lambda a, b: MP.lift(a) * b, cofm, dvm)
        if "rem" in case:
            rm_live, rmm = build_checked(case["rem"])
            dd = dd + rm_live
            ddm = arr_map(lambda a, b: MP.lift(a) + b, ddm, rmm)
        # the dividend is itself produced by numpoly: validate it against the model
        try:
            got_dd = to_model(dd)
        except MalformedPoly:
            got_dd = None
        if got_dd is None or got_dd.shape != ddm.shape or any(
                not (got_dd[i] == ddm[i]) for i in numpy.ndindex(*ddm.shape)):
            ctx.discard_case("dividend-construction-mismatch")
            return []
    else:
        dd, ddm = build_operand(case["dividend"])
    before = (snapshot(dd), snapshot(dv))
    shape = numpy.broadcast_shapes(ddm.shape, dvm.shape)
    ddb = numpy.broadcast_to(ddm, shape)
    dvb = numpy.broadcast_to(dvm, shape)

    opts = case.get("opts") or {}
    hooks.clear_iterations()
    try:
        with numpoly.global_options(**opts):
            out = numpoly.poly_divmod(dd, dv)
    except hooks.DivisionLoop as err:
        if opts:  # (own bucket: the option setting is part of what fails)
            return fail("nonterminating:%s:options:%s" % (err.kind, ",".join(sorted(k for k, v in opts.items()))), str(err))
        raise
    except Exception as err:
        return fail("exception:%s:%s" % (type(err).__name__, cls), repr(err))
    iters = hooks.last_iterations()
    if not (isinstance(out, tuple) and len(out) == 2):
        return fail("arity", "returned %r" % (type(out),))
    q, r = out
    try:
        qm, rm = to_model(q), to_model(r)
    except MalformedPoly as err:
        return fail("malformed", str(err))
    if tuple(qm.shape) != tuple(shape) or tuple(rm.shape) != tuple(shape):
        return fail("shape", "q %s r %s expected %s" % (qm.shape, rm.shape, shape))
    if (snapshot(dd), snapshot(dv)) != before:
        return fail("argument-modified", "poly_divmod changed its arguments")

    nvars = sorted({v for a in (ddm, dvm) for e in a.flat for v in e.variables()})
    for idx in numpy.ndindex(*shape):
        a, b, qq, rr = ddb[idx], dvb[idx], qm[idx], rm[idx]
        scale = max(2.0 ** -case["tiny"] if case.get("tiny") else 1.0,
                    a.maxabs(), (qq.absval() * b.absval() + rr.absval()).maxabs())
        recomposed = qq * b + rr
        if not mp_close(recomposed, a, 1e-8, scale):
            return fail("identity:%s" % ("zero-divisor-element" if not b else cls),
                        "at %s: q*divisor+r = %r but dividend = %r (q=%r r=%r divisor=%r)"
                        % (idx, recomposed, a, qq, rr, b))
        if not b:
            ctx.label("zero-divisor-element")
            continue
        if b.isconstant():
            c = b.constant()
            true_q = a.scale(1 / c if not isinstance(c, int) else __import__("fractions").Fraction(1, c))
            if not mp_close(qq, true_q, 1e-8, scale) or not mp_close(rr, MP(), 1e-8, scale):
                return fail("constant-divisor", "at %s: dividend %r / %r gave q=%r r=%r" % (idx, a, c, qq, rr))
            continue
        if cofm is not None and "rem" not in case:
            cc = numpy.broadcast_to(cofm, shape)[idx]
            if not mp_close(rr, MP(), 1e-8, scale) or not mp_close(qq, cc, 1e-8, scale):
                return fail("exact-multiple", "at %s: dividend = %r * %r but q=%r r=%r" % (idx, cc, b, qq, rr))
        if len(nvars) <= 1 and rr:
            v = nvars[0] if nvars else None
            # ignore numerically negligible coefficients when reading the degree
            sig = MP({k: c for k, c in rr.d.items() if abs(c) > 1e-8 * scale})
            if sig and sig.degree(v) >= b.degree(v):
                return fail("degree", "at %s: deg r = %d >= deg divisor = %d (r=%r divisor=%r)"
                            % (idx, sig.degree(v), b.degree(v), rr, b))

    # operator spellings
    sp = case["spelling"]
    if sp != "function":
        tag = sp + (",numpy-scalar-left" if isinstance(dd, numpy.generic) else "")
        optctx = numpoly.global_options(**opts)
        optctx.__enter__()
        try:
            if sp == "operators":
                if not isinstance(dd, numpoly.ndpoly):
                    raise ValueError("not applicable")
                trip = (dd / dv, dd % dv, divmod(dd, dv))
            else:
                # reflected: plain number/array on the left, polynomial on the right
                left = numpy.asarray(numpy.vectorize(lambda e: float(e.constant()), otypes=[float])(ddm)) \
                    if all(e.isconstant() for e in ddm.flat) else None
                if left is None or not isinstance(dv, numpoly.ndpoly):
                    trip = None
                else:
                    lefts = left.tolist() if ddm.ndim else float(left)
                    if not isinstance(dd, numpoly.ndpoly):
                        lefts = dd  # the generated plain operand itself (number, list or ndarray)
                    ref = numpoly.poly_divmod(lefts, dv)
                    q, r = ref
                    trip = (lefts / dv, lefts % dv, divmod(lefts, dv))
                    dd = lefts
            if trip is not None:
                fq = numpoly.poly_divide(dd, dv)
                fr = numpoly.poly_remainder(dd, dv)
                exp = (snapshot(fq), snapshot(fr), (snapshot(q), snapshot(r)))
                got = (snapshot(trip[0]), snapshot(trip[1]),
                       (snapshot(trip[2][0]), snapshot(trip[2][1])))
                names_ = ["/ vs poly_divide", "% vs poly_remainder", "divmod vs poly_divmod"]
                for nm, g, e in zip(names_, got, exp):
                    if g != e:
                        if isinstance(dd, numpy.generic):  # one root cause, whatever the symptom
                            return fail("reflected:numpy-scalar-left", "%s differ (numpy scalar on the left)" % nm)
                        return fail("operator:%s" % tag, "%s differ" % nm)
                if snapshot(fq) != snapshot(q) or snapshot(fr) != snapshot(r):
                    return fail("components", "poly_divide/poly_remainder differ from poly_divmod components")
                ctx.label("spelling:" + sp)
        except hooks.DivisionLoop:
            raise
        except ValueError:
            pass
        except Exception as err:
            if isinstance(dd, numpy.generic):
                return fail("reflected:numpy-scalar-left", "numpy scalar on the left: %r" % (err,))
            return fail("operator-exception:%s:%s" % (type(err).__name__, tag), repr(err))
        finally:
            optctx.__exit__(None, None, None)

    ctx.label("class:" + cls)
    if opts:
        ctx.label("options:" + ",".join(sorted(opts)))
    nm = [n for d in (case.get("dividend"), case.get("divisor"), case.get("cofactor")) if d for n in [d.get("names")] if n]
    if any(list(n) != sorted(n, key=gen.var_num) for n in nm):
        ctx.label("names:not-index-ordered")
    if iters >= 3:
        ctx.label("iterations>=3")
    if iters >= 6:
        ctx.label("iterations>=6")
    if iters >= 12:
        ctx.label("iterations>=12")
    if iters >= 20:
        ctx.label("iterations>=20")
    if iters >= 40:
        ctx.label("iterations>=40")
    if len(shape) >= 1:
        ctx.label("array")
    ctx.note({"iterations": iters})
    w = hooks.MON.max_work
    for lim in (1000, 3000, 6000, 15000):
        if w >= lim:
            ctx.label("monitor-work>=%d" % lim)
    nonconst = any(not b.isconstant() for b in dvb.flat)
    ctx.nontrivial(iters >= 2 and nonconst)
    return fails
