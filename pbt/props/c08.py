"""C08 numpy, numpoly and operator spellings agree; unsupported numpy calls raise."""
import numpy
from hypothesis import strategies as st

from .. import gen, hooks
from ..catalogue import RECIPES, PolyOperands, resolve, invoke, spellings_of, registry_names
from ..conv import to_model, MalformedPoly, build_checked
from ..core import Failure
from ..model import first_diff

ID = "C08"
BUDGET = {"quick": 1000, "thorough": 8000}
TECHNIQUE = ("registry enumeration x Hypothesis-generated valid arguments: differential between the numpoly / numpy / "
             "operator / method / ufunc.reduce|accumulate spellings; exhaustive enumeration of the overridable numpy "
             "API (functions, ufuncs, ufunc methods) with call templates vs the predicate 'raises FeatureNotSupported'")
LEVEL_TEXT = ("Positive half: every registered function/ufunc (read from the dispatch tables at run time) is called "
              "through all of its spellings on generated arguments and the results must agree in type, shape, "
              "coefficient dtype, names and exact model value (or raise the same exception type). Negative half: every "
              "function returned by numpy.testing.overrides.get_overridable_numpy_array_functions() and every ufunc of "
              "get_overridable_numpy_ufuncs() that is not registered, plus outer/at/reduceat/unmapped reduce/accumulate "
              "of every ufunc, is called with a polynomial through templates that numpy accepts for a float array and "
              "must raise FeatureNotSupported; the negative enumeration is run twice, before (cold) and after (warm) the "
              "positive half has dispatched the registered functions.")
EXHAUSTIVE_PARTS = ("the negative half enumerates the complete overridable numpy API of the installed numpy "
                    "(recomputed each run); functions no template reaches are listed in the evidence, not claimed")
RULE = (
    "positive: per registry entry a recipe draws arguments valid for that function (polynomial arrays 0-3-d, 1-3 "
    "names, int/float); spellings numpoly.f, numpy.f, operator, method, numpy.<ufunc>.reduce/accumulate (explicit "
    "integer axis) must return the same type, shape, dtype, names and model value, or raise the same exception type; "
    "/ % divmod are spellings of poly_divide/poly_remainder/poly_divmod. negative: for every unregistered overridable "
    "numpy function / ufunc / ufunc method, templates f(p), f(p,p), f(p,1), f(1,p), f([p,p]), f(p,p,p), "
    "f('ij,jk',p,p), f(func,0,p), f(cond,[p]), like=p are tried; precondition: numpy accepts the template with a "
    "float ndarray and a duck-array probe in the polynomial's position is consulted by the override protocol "
    "(otherwise the call is a plain conversion, outside the claim); postcondition: FeatureNotSupported. non-trivial (positive) = >= 2 spellings executed on a "
    "non-constant polynomial; (negative) = a template numpy accepts for plain arrays."
)
LEVEL_TEXT += (" Spellings compared also include numpy.full/ones/zeros(..., like=poly) and the axis-omitted ufunc.reduce/accumulate (axis 0).")
ASSUMPTIONS = [
    "explicit output arguments (out=, in-place operators) are outside the compared spellings",
    "ufunc.reduce/accumulate with the axis omitted mean axis 0 (numpy's definition; sum/cumsum default to axis=None): that spelling is compared with the axis=0 call",
    "plain converters called without like= (numpy.array, asarray ...) never dispatch and are outside the claim",
    "supported methods = methods overridden in baseclass.py or spelled by the repository's interface fixture (sum prod cumsum mean max min all any round diagonal reshape transpose repeat nonzero)",
]

OG = PolyOperands(max_terms=3, max_exp=2, kinds="if", max_names=3)
SKIP_POS = {"apply_along_axis", "apply_over_axes"}  # callables are spelled per module; covered by C11


@st.composite
def case_st(draw, only=None):
    kind = "division" if only == "poly-division" else ("recipe" if only else draw(
        st.sampled_from(["recipe"] * 9 + ["division"])))
    if kind == "division":
        names = ["q0", "q1"][: draw(st.integers(1, 2))]
        target = draw(st.sampled_from([(), (2,), (2, 2)]))
        a = draw(gen.poly_desc(names=names, shape=target, kind="i", max_terms=3, max_exp=2, retain=False))
        b = draw(gen.poly_desc(names=names, shape=gen.broadcast_member(draw, target), kind="i", min_terms=1,
                               max_terms=2, max_exp=1, retain=False))
        if draw(st.integers(0, 2)) == 0:
            # plain numbers / arrays as divisor (zeros included): still spellings of poly_divide etc.
            shp = gen.broadcast_member(draw, target)
            size = gen.size_of(shp)
            how = draw(st.sampled_from(["array", "list", "pyint", "pyfloat"]))
            vals = draw(st.lists(st.sampled_from([2, 0, 4, -1, 3, 1]), min_size=size, max_size=size))
            if how in ("pyint", "pyfloat"):
                shp = ()
                vals = vals[:1] or [2]
            b = {"num": how, "shape": list(shp), "kind": "i" if how != "pyfloat" else "f",
                 "values": vals if how != "pyfloat" else [v * 4 for v in vals]}
        return {"fn": "poly-division", "a": a, "b": b, "reflect": draw(st.integers(0, 3)) == 0}
    fn = only or draw(st.sampled_from(sorted(n for n in RECIPES if n not in SKIP_POS)))
    call = RECIPES[fn].gen(draw, OG)
    call["fn"] = fn
    return call


def strategy(tier):
    return case_st()


def STRATA(tier):
    return sorted(n for n in RECIPES if n not in SKIP_POS) + ["poly-division"] * 3


def strategy_for(tier, name):
    return case_st(only=name)


def describe(x, numpoly):
    """Comparable summary of a result: (type tag, shape, dtype, names, model)."""
    if isinstance(x, numpoly.ndpoly):
        return ("ndpoly", tuple(x.shape), str(x.dtype), tuple(x.names), to_model(x))
    if isinstance(x, (list, tuple)):
        return (type(x).__name__, tuple(describe(i, numpoly) for i in x))
    if isinstance(x, numpy.ndarray):
        return ("ndarray", x.shape, str(x.dtype), x.tolist())
    if isinstance(x, (bool, numpy.bool_)):
        return ("bool", bool(x))
    if isinstance(x, numpy.generic):
        return ("scalar", str(x.dtype), x.item())
    return (type(x).__name__, repr(x))


def differ(a, b):
    """None if the two summaries agree, else a message."""
    if a[0] != b[0]:
        # a 0-d boolean may be a scalar or a 0-d array in different spellings
        if {a[0], b[0]} <= {"bool", "ndarray", "scalar"}:
            va = a[-1]
            vb = b[-1]
            return None if va == vb else "values %r vs %r" % (va, vb)
        return "types %s vs %s" % (a[0], b[0])
    if a[0] == "ndpoly":
        if a[1] != b[1]:
            return "shapes %s vs %s" % (a[1], b[1])
        if a[2] != b[2]:
            return "dtypes %s vs %s" % (a[2], b[2])
        if a[3] != b[3]:
            return "names %s vs %s" % (a[3], b[3])
        d = first_diff(a[4], b[4])
        return d
    if a[0] in ("list", "tuple"):
        if len(a[1]) != len(b[1]):
            return "lengths %d vs %d" % (len(a[1]), len(b[1]))
        for x, y in zip(a[1], b[1]):
            d = differ(x, y)
            if d:
                return d
        return None
    return None if a == b else "%r vs %r" % (a, b)


# ------------------------------------------------------------------ negative half

class Probe:
    """Duck array that records which functions numpy's override protocol consulted it for."""

    funcs = []

    def __array_function__(self, func, types, args, kwargs):
        Probe.funcs.append(func)
        return NotImplemented

    def __array_ufunc__(self, ufunc, method, *inputs, **kwargs):
        Probe.funcs.append(ufunc)
        return NotImplemented


def float_and_poly():
    import numpoly

    A = numpy.array([[1.5, 2.0], [0.5, 4.0]])
    q0, q1 = numpoly.variable(2)
    Pm = numpoly.polynomial([[q0, q1 + 1.5], [2.0 * q0 * q1, 4.0]])
    return A, Pm


def templates(x, f):
    """Call templates with x in every array position."""
    x0 = x if isinstance(x, Probe) else x[0]
    cond = numpy.array([[True, False], [False, True]])
    idx = numpy.array([0, 1])
    return [
        ("f(x)", lambda: f(x)),
        ("f(x,x)", lambda: f(x, x)),
        ("f(x,1)", lambda: f(x, 1)),
        ("f(1,x)", lambda: f(1, x)),
        ("f([x,x])", lambda: f([x, x])),
        ("f(x,x,x)", lambda: f(x, x, x)),
        ("f(x,0,1)", lambda: f(x, 0, 1)),
        ("f('ij,jk',x,x)", lambda: f("ij,jk", x, x)),
        ("f(func,0,x)", lambda: f(numpy.sum, 0, x)),
        ("f(cond,[x])", lambda: f([cond], [x])),
        ("f(cond,x)", lambda: f(cond, x)),
        ("f(x,idx)", lambda: f(x, idx)),
        ("f(x,idx,1.0)", lambda: f(x, idx, 1.0)),
        ("f(x,(2,2))", lambda: f(x, (2, 2))),
        ("f(x[0],x[0])", lambda: f(x0, x0)),
        ("f(x[0])", lambda: f(x0)),
        ("f(x[0],x[0],x[0])", lambda: f(x0, x0, x0)),
        ("f(x,axis=0)", lambda: f(x, axis=0)),
        ("f(x,float)", lambda: f(x, float)),
        ("f(x,'q0')", lambda: f(x, ";;")),
        ("f(x,x,'q0')", lambda: f(x, x, ";;")),
        ("f((2,2),like=x)", lambda: f((2, 2), like=x)),
        ("f(2,like=x)", lambda: f(2, like=x)),
        ("f([1.,2.],like=x)", lambda: f([1.0, 2.0], like=x)),
        ("f((2,2),1.,like=x)", lambda: f((2, 2), 1.0, like=x)),
        ("f(0,1,like=x)", lambda: f(0, 1, like=x)),
    ]


def qualname(f):
    return "%s.%s" % (getattr(f, "__module__", "?"), getattr(f, "__name__", repr(f)))


def unregistered_functions():
    import numpoly
    from numpy.testing import overrides

    fs = [f for f in overrides.get_overridable_numpy_array_functions()
          if f not in numpoly.FUNCTION_COLLECTION]
    return sorted(fs, key=qualname)


def unregistered_ufuncs():
    import numpoly
    from numpy.testing import overrides

    us = [u for u in overrides.get_overridable_numpy_ufuncs()
          if isinstance(u, numpy.ufunc) and u not in numpoly.UFUNC_COLLECTION
          and getattr(numpy, u.__name__, None) is u]  # public ufuncs only (private string ufuncs crash numpy)
    return sorted(us, key=lambda u: u.__name__)


def all_ufuncs():
    from numpy.testing import overrides

    return sorted([u for u in overrides.get_overridable_numpy_ufuncs()
                   if isinstance(u, numpy.ufunc) and getattr(numpy, u.__name__, None) is u],
                  key=lambda u: u.__name__)


DANGEROUS = {"numpy.save", "numpy.savez", "numpy.savez_compressed", "numpy.savetxt", "numpy.tofile"}


def probe_unsupported(f, label, ctx, fails, reached):
    """For every template that numpy accepts for a float array AND in which the override protocol
    consults the object in the polynomial's position, the polynomial call must raise FeatureNotSupported."""
    import warnings

    import numpoly

    A, Pm = float_and_poly()
    if "recfunctions" in getattr(f, "__module__", ""):
        # these functions work on structured arrays: the plain counterpart of a polynomial is a
        # structured array with the same fields
        A = numpy.array(Pm.values)
    n_valid = 0
    for (tname, plain), (_, poly), (_, probe) in zip(templates(A.copy(), f), templates(Pm, f),
                                                     templates(Probe(), f)):
        try:
            with warnings.catch_warnings(), numpy.errstate(all="ignore"):
                warnings.simplefilter("ignore")
                plain()
        except Exception:
            continue
        Probe.funcs = []
        try:
            with warnings.catch_warnings(), numpy.errstate(all="ignore"):
                warnings.simplefilter("ignore")
                probe()
        except Exception:
            pass
        # the object in this position must be consulted for THIS function (not for an inner helper
        # call), and the function numpy reports must not be a registered one (like= wrappers report
        # the public, possibly registered, function)
        asked = [g for g in Probe.funcs if getattr(g, "__name__", None) == getattr(f, "__name__", "")]
        if not asked or any(g in numpoly.FUNCTION_COLLECTION or g in numpoly.UFUNC_COLLECTION for g in asked):
            continue  # a plain conversion or a supported call: outside the negative claim
        n_valid += 1
        try:
            with warnings.catch_warnings(), numpy.errstate(all="ignore"):
                warnings.simplefilter("ignore")
                res = poly()
        except numpoly.FeatureNotSupported:
            continue
        except hooks.DivisionLoop:
            raise
        except Exception as err:
            fails.append(Failure("unsupported:%s:raised-%s" % (label, type(err).__name__),
                                 "%s with template %s raised %r instead of FeatureNotSupported" % (label, tname, err),
                                 case={"neg_one": label}))
            break
        fails.append(Failure("unsupported:%s:returned" % label,
                             "%s with template %s returned %s instead of raising FeatureNotSupported"
                             % (label, tname, type(res).__name__), case={"neg_one": label}))
        break
    if n_valid:
        reached.append(label)
    return n_valid


def ufunc_method_probes(u):
    import numpoly

    A, Pm = float_and_poly()
    out = []
    mapped_reduce = u in (numpy.add, numpy.multiply, numpy.logical_and, numpy.logical_or, numpy.maximum, numpy.minimum)
    mapped_acc = u in (numpy.add, numpy.multiply)
    if u.nin == 2 and u.nout == 1 and u.signature is None:  # (ufunc.at on a gufunc crashes numpy itself)
        out.append(("outer", lambda x: u.outer(x, x)))
        out.append(("at", lambda x: u.at(x.copy() if isinstance(x, numpy.ndarray) and not isinstance(x, numpoly.ndpoly) else x, [0], 1.0)))
        out.append(("reduceat", lambda x: u.reduceat(x, [0, 1])))
        if not mapped_reduce:
            out.append(("reduce", lambda x: u.reduce(x)))
        if not mapped_acc:
            out.append(("accumulate", lambda x: u.accumulate(x)))
    return out


def enumerate_cases(tier):
    nf = len(unregistered_functions())
    for lo in range(0, nf, 40):
        yield {"neg": "functions", "lo": lo, "hi": min(nf, lo + 40)}
    yield {"neg": "ufuncs"}
    yield {"neg": "ufunc-methods"}
    yield {"neg": "registry-coverage"}


def check_negative(case, ctx):
    import warnings

    import numpoly

    fails = []
    reached = []
    n = 0
    if "neg_one" in case:
        label = case["neg_one"]
        cands = {qualname(f): f for f in unregistered_functions()}
        cands.update({"ufunc:" + u.__name__: u for u in unregistered_ufuncs()})
        if label in cands:
            probe_unsupported(cands[label], label, ctx, fails, reached)
        elif label.startswith("ufunc-method:"):
            _, uname, m = label.split(":")
            u = getattr(numpy, uname)
            A, Pm = float_and_poly()
            for mname, fn in ufunc_method_probes(u):
                if mname == m:
                    try:
                        fn(Pm)
                        fails.append(Failure("unsupported:%s:returned" % label, "returned"))
                    except numpoly.FeatureNotSupported:
                        pass
                    except Exception as err:
                        fails.append(Failure("unsupported:%s:raised-%s" % (label, type(err).__name__), repr(err)))
        ctx.nontrivial(True)
        return fails
    if case["neg"] == "functions":
        fs = unregistered_functions()[case["lo"]:case["hi"]]
        unreached = []
        for f in fs:
            label = qualname(f)
            if label in DANGEROUS:
                continue
            k = probe_unsupported(f, label, ctx, fails, reached)
            n += k
            if not k:
                unreached.append(label)
        ctx.note({"unreached": unreached})
        ctx.label("negative:functions")
    elif case["neg"] == "ufuncs":
        for u in unregistered_ufuncs():
            n += probe_unsupported(u, "ufunc:" + u.__name__, ctx, fails, reached)
        ctx.label("negative:ufuncs")
    elif case["neg"] == "ufunc-methods":
        A, Pm = float_and_poly()
        for u in all_ufuncs():
            for mname, fn in ufunc_method_probes(u):
                label = "ufunc-method:%s:%s" % (u.__name__, mname)
                try:
                    with warnings.catch_warnings(), numpy.errstate(all="ignore"):
                        warnings.simplefilter("ignore")
                        fn(A.copy())
                except Exception:
                    continue
                n += 1
                try:
                    with warnings.catch_warnings(), numpy.errstate(all="ignore"):
                        warnings.simplefilter("ignore")
                        res = fn(Pm)
                except numpoly.FeatureNotSupported:
                    continue
                except Exception as err:
                    fails.append(Failure("unsupported:ufunc-method:%s:raised-%s" % (mname, type(err).__name__),
                                         "%s raised %r" % (label, err), case={"neg_one": label}))
                    continue
                fails.append(Failure("unsupported:ufunc-method:%s:returned" % mname,
                                     "%s returned %s" % (label, type(res).__name__), case={"neg_one": label}))
        ctx.label("negative:ufunc-methods")
    else:
        # every registered implementation must be reachable by a recipe (or be listed as special)
        reg = registry_names()
        missing = sorted(set(reg) - set(RECIPES) - {"copyto", "savetxt", "poly_divide", "poly_divmod", "poly_remainder"})
        ctx.note({"registered_without_recipe": missing, "registered": len(reg)})
        n = len(reg)
        ctx.label("registry-coverage")
    ctx.add_evals(n, n)
    if case.get("warm"):
        ctx.label("negative:warm-pass")
    # keep one failure per bucket
    seen = set()
    out = []
    for f in fails:
        if f.bucket not in seen:
            seen.add(f.bucket)
            out.append(f)
    return out


# ------------------------------------------------------------------ positive half

def check_case(case, ctx):
    if "neg" in case or "neg_one" in case:
        return check_negative(case, ctx)
    import numpoly

    fn = case["fn"]
    fails = []
    if fn == "poly-division":
        from ..conv import build_operand
        a, _ = build_checked(case["a"])
        b, _ = build_operand(case["b"])
        if case.get("reflect") and "num" in case["b"]:
            a, b = b, a  # number or array on the left: reflected operators
        pairs = [("/", lambda: a / b, lambda: numpoly.poly_divide(a, b)),
                 ("%", lambda: a % b, lambda: numpoly.poly_remainder(a, b)),
                 ("divmod", lambda: divmod(a, b), lambda: numpoly.poly_divmod(a, b))]
        for name, op, ref in pairs:
            try:
                d = differ(describe(op(), numpoly), describe(ref(), numpoly))
            except hooks.DivisionLoop:
                raise
            except MalformedPoly as err:
                return [Failure("division-operator:malformed", str(err))]
            except Exception as err:
                return [Failure("division-operator:exception:%s" % type(err).__name__, repr(err))]
            if d:
                return [Failure("division-operator:%s" % name, "%s differs from its poly_* function: %s" % (name, d))]
        ctx.label("poly-division-operators")
        ctx.nontrivial(True)
        return []

    rec = RECIPES[fn]
    args = resolve(case["args"], "live")
    kw = resolve(case["kw"], "live")
    sps = spellings_of(rec, args, kw)
    if fn in ("full", "zeros", "ones"):
        sps = ["numpoly", "like"]  # numpy.full/zeros/ones dispatch only through like=
    outcomes = {}
    for sp in sps:
        try:
            if sp == "method" and fn == "transpose" and "axes" in kw:
                outcomes[sp] = ("ok", describe(args[0].transpose(*kw["axes"]), numpoly))
                continue
            outcomes[sp] = ("ok", describe(invoke(rec, args, kw, sp), numpoly))
        except MalformedPoly as err:
            return [Failure("%s:malformed:%s" % (fn, sp), str(err))]
        except Exception as err:
            outcomes[sp] = ("raise", type(err).__name__, repr(err))
    base_sp = sps[0]
    base = outcomes[base_sp]
    for sp in sps[1:]:
        o = outcomes[sp]
        cls = "axis-omitted" if fn == "repeat" and "axis" not in kw else ""
        if cls and (base[0] != o[0] or (base[0] == "ok" and differ(base[1], o[1]))):
            fails.append(Failure("repeat:spellings-differ:axis-omitted", "%s vs %s: %r / %r" % (
                base_sp, sp, base[:2] if base[0] == "raise" else "ok", o[:2] if o[0] == "raise" else "ok")))
            break
        if base[0] != o[0]:
            which = sp if o[0] == "raise" else base_sp
            msg = "%s: %s vs %s: %s" % (fn, base_sp, sp, (o if o[0] == "raise" else base)[1:])
            fails.append(Failure("%s:one-spelling-raises:%s:%s" % (fn, which, cls), msg))
            break
        if base[0] == "raise":
            if base[1] != o[1]:
                fails.append(Failure("%s:exception-types:%s" % (fn, sp), "%s raises %s, %s raises %s"
                                     % (base_sp, base[1], sp, o[1])))
                break
            continue
        d = differ(base[1], o[1])
        if d:
            fails.append(Failure("%s:differs:%s:%s" % (fn, sp, cls), "%s vs %s: %s" % (base_sp, sp, d)))
            break
    ctx.label("fn:" + fn)
    for sp in sps:
        ctx.label("spelling:" + sp)
    nonconst = any(isinstance(a, numpoly.ndpoly) and not a.isconstant() for a in args) or any(
        isinstance(a, list) and any(isinstance(x, numpoly.ndpoly) and not x.isconstant() for x in a) for a in args)
    ctx.nontrivial(len(sps) >= 2 and nonconst)
    return fails


def run_extra(worker):
    """Warm pass: repeat the negative enumeration AFTER the positive half has exercised the registered
    functions (an implementation may cache dispatch decisions and start leaking unregistered namesakes)."""
    for case in enumerate_cases(worker.tier):
        if case.get("neg") == "registry-coverage":
            continue
        case = dict(case, warm=True)
        worker.run_case(case)
