"""C17 Operations never modify their arguments."""
import copy

import numpy
from hypothesis import strategies as st

from .. import gen, hooks
from ..catalogue import RECIPES, EXTRA, PolyOperands, any_call_strategy, resolve, run_call
from ..conv import snapshot
from ..core import Failure

ID = "C17"
BUDGET = {"quick": 4000, "thorough": 16000}
TECHNIQUE = ("catalogue x Hypothesis-generated inputs (also pre-aligned, aliased, read-only and raising calls) with "
             "byte-level snapshots of every argument before and after the call")
LEVEL_TEXT = ("Every catalogue entry (registered functions, operators, methods, properties, numpoly-only functions) "
              "is called on generated arguments, including operands that are already aligned with each other (where "
              "aspolynomial/align_shape hand back the caller's own object), the same object passed twice, read-only "
              "arrays and argument tuples on which the call raises; shape, dtype, names, keys, exponents and raw "
              "buffer bytes of every argument must be unchanged afterwards, whether the call returned or raised.")
RULE = (
    "a call is drawn from the operation catalogue (83 registered functions + 39 numpoly-only callables) with "
    "polynomial arrays 0-3-d, 1-3 names, int/float; variants: as generated / all polynomial operands pre-aligned "
    "with numpoly.align_polynomials (float operands with a constant term and all names, i.e. nothing left to align) "
    "/ first operand passed twice / a keyword corrupted so that the call raises; byte snapshots (shape, dtype, names, "
    "keys, exponents bytes, raw structured buffer bytes; ndarrays by bytes, lists by deep equality) of every "
    "argument before and after. out= is not generated; for copyto only the source (and where=) is watched. "
    "non-trivial = the call received a polynomial argument that needed no alignment (aliasing possible) or raised."
)
LEVEL_TEXT += (" Constructors called with numpy arrays (uint32/int64/uint8 exponent arrays, coefficient arrays) are watched as arguments too.")
ASSUMPTIONS = [
    "explicit output targets are excluded by construction",
    "the returned object may alias an argument (numpy views do); only modification of the arguments is a violation",
]

OG = PolyOperands(max_terms=4, max_exp=2, kinds="if", max_names=3)
SKIP = {"apply_along_axis", "apply_over_axes"}
VARIANTS = ["plain", "aligned", "aligned", "aligned", "twice", "raising"]


@st.composite
def case_st(draw, only=None):
    if only is None:
        call = draw(any_call_strategy(OG, skip=SKIP))
    elif only in RECIPES:
        call = draw(any_call_strategy(OG, names=[only], extra_names=[]))
    else:
        call = draw(any_call_strategy(OG, names=[], extra_names=[only]))
    call["variant"] = draw(st.sampled_from(VARIANTS))
    call["spelling"] = draw(st.sampled_from(["numpoly", "numpoly", "numpy"]))
    return call


def strategy(tier):
    return case_st()


def STRATA(tier):
    """One stratum per catalogue entry, so that every callable gets the same number of cases."""
    return sorted(n for n in list(RECIPES) + list(EXTRA) if n not in SKIP)


def strategy_for(tier, name):
    return case_st(only=name)


def flat_polys(x, numpoly, out):
    if isinstance(x, numpoly.ndpoly):
        out.append(x)
    elif isinstance(x, (list, tuple)):
        for i in x:
            flat_polys(i, numpoly, out)
    elif isinstance(x, dict):
        for i in x.values():
            flat_polys(i, numpoly, out)
    return out


def replace_polys(x, numpoly, mapping):
    if isinstance(x, numpoly.ndpoly):
        return mapping.get(id(x), x)
    if isinstance(x, list):
        return [replace_polys(i, numpoly, mapping) for i in x]
    if isinstance(x, tuple):
        return tuple(replace_polys(i, numpoly, mapping) for i in x)
    if isinstance(x, dict):
        return {k: replace_polys(v, numpoly, mapping) for k, v in x.items()}
    return x


def check_case(case, ctx):
    import numpoly

    fn = case["fn"]
    variant = case["variant"]
    args = resolve(case["args"], "live")
    kw = resolve(case["kw"], "live")
    polys = flat_polys([args, kw], numpoly, [])
    aligned_in = False
    if variant == "aligned" and polys:
        # make the operands mutually aligned, so that aspolynomial / align_* can return them as they are
        try:
            if len(polys) >= 2:
                al = numpoly.align_polynomials(*polys)
            else:
                # a single operand: align it with a constant of the same (float) dtype
                al = numpoly.align_polynomials(polys[0], polys[0].dtype.type(1))[:1]
            mapping = {id(p): a for p, a in zip(polys, al)}
            args = replace_polys(args, numpoly, mapping)
            kw = replace_polys(kw, numpoly, mapping)
            aligned_in = True
        except Exception:
            pass
    elif variant == "twice" and len(args) >= 2 and isinstance(args[0], numpoly.ndpoly) \
            and isinstance(args[1], numpoly.ndpoly):
        args = [args[0], args[0]] + list(args[2:])
        aligned_in = True
    elif variant == "raising":
        if "axis" in kw:
            kw = dict(kw, axis=7)
        elif not case.get("extra") and len(args) >= 2 and isinstance(args[1], numpoly.ndpoly):
            # incompatible shapes
            try:
                args = [args[0], numpoly.polynomial([args[1].ravel()[0]] * 5).reshape(5, 1, 1, 1, 1)[:, 0, 0, 0, 0][:, None, None, None][:, :, :, 0]] + list(args[2:])
            except Exception:
                pass
    spelling = case.get("spelling", "numpoly")
    if case.get("extra") or fn in ("full", "zeros", "ones", "det"):
        spelling = "numpoly"
    if spelling == "numpy" and not RECIPES[fn].np_name:
        spelling = "numpoly"
    # explicit output targets are not arguments in the sense of the property
    watched = [args[1:], kw] if fn == "copyto" else [args, kw]
    before = snapshot(watched)
    raised = None
    try:
        run_call(case, args, kw, spelling)
    except hooks.DivisionLoop:
        raise
    except Exception as err:
        raised = type(err).__name__
    after = snapshot(watched)
    fails = []
    if before != after:
        cls = "raised" if raised else "returned"
        fails.append(Failure("%s:argument-modified:%s" % (fn, "aligned-input" if aligned_in else "plain-input"),
                             "%s (%s spelling, variant %s, call %s) changed one of its arguments"
                             % (fn, spelling, variant, cls)))
    ctx.label("fn:" + fn)
    ctx.label("variant:" + variant)
    if raised:
        ctx.label("raised")
    ctx.nontrivial(bool(polys) and (aligned_in or raised is not None))
    return fails
