"""C20 Monomials are never confused, whatever the exponent size."""
import io
import pickle

import numpy
from hypothesis import strategies as st

from ..conv import to_model, MalformedPoly
from ..core import Failure
from ..model import MP, first_diff

ID = "C20"
BUDGET = {"quick": 500, "thorough": 8000}
TECHNIQUE = ("exhaustive enumeration of single exponents (key encode/decode/raw view/pickle) and of exponent pairs for "
             "products, plus Hypothesis-generated large exponent tuples through alignment, multiplication, powers, "
             "differentiation, evaluation, pickling and text files, vs the exact model / 'round-trips exactly or raises'")
LEVEL_TEXT = ("Every exponent in a range is pushed through construction -> exponents -> raw structured view -> "
              "polynomial(values) -> pickle and must come back unchanged; exponents that cannot be represented must raise; "
              "(c*q0**a)*(d*q0**b) must be c*d*q0**(a+b) for all enumerated pairs (also with a second indeterminate, so "
              "that multi-byte key sequences can collide); random exponent tuples up to 10**5 go through +, *, **2, "
              "derivative, evaluation at 1/-1/1.0, alignment, pickling and savetxt/loadtxt against the exact model.")
EXHAUSTIVE_PARTS = ("quick: exponents 0..4095 completely, then every 97th up to 55000 plus boundary sets (58..70, 126..130, "
                    "195..199, 254..258, 2047..2049, 55230..55240, 57280..57290, 65470..65480, 1114040..1114052); pairs "
                    "(a,b) from the boundary set; thorough: every exponent below 55000 and all pairs with a+b <= 600")
FUZZ_RUNS = {"thorough": 3000}  # atheris/libFuzzer campaign over the same strategy and oracle
RULE = (
    "(a) exponent e: polynomial_from_attributes([[e]],[1]) -> .exponents == [[e]] -> polynomial(p.values, names) has "
    "the same term -> pickle round-trip -> (with a second indeterminate) the two-column key decodes to (e, 1); values "
    "outside the representable range (negative, > 0x10FFFF-59, >= 2**32) must raise. (b) (3*q0**a)*(5*q0**b) == "
    "15*q0**(a+b) and (q0**a*q1**b + 1)*(q0**b - q1**a) equals the model product. (c) random exponent tuples (1-3 "
    "indeterminates, exponents up to 10**5, 1-3 terms): +, -, *, **2, derivative, evaluation at {1,-1,1.0}, "
    "align_polynomials, pickle agree with the model; savetxt->loadtxt round-trips exactly or raises. "
    "non-trivial = an exponent or exponent sum >= 69 is involved."
)
LEVEL_TEXT += (" Also enumerated: fractional exponents (must raise) through four constructors, and products / squares of two-indeterminate polynomials whose exponent sum passes 2**32 (must raise, never wrap).")
ASSUMPTIONS = [
    "which exception type an unrepresentable exponent raises is not asserted, only that no polynomial is returned",
    "text files: a raised error is acceptable, a different monomial is not",
]

BOUNDARY = (list(range(56, 72)) + list(range(124, 132)) + list(range(193, 201)) + list(range(252, 260))
            + [510, 511, 512, 513, 1023, 1024, 2047, 2048, 2049, 4095, 4096]
            + list(range(55230, 55241)) + list(range(57280, 57291)) + list(range(65470, 65481))
            + [100000, 1000000] + list(range(1114040, 1114053)))
UNREPRESENTABLE = [-1, -70, 1114053, 2 ** 31, 2 ** 32 - 60, 2 ** 32 - 59, 2 ** 32, 2 ** 32 + 5, 2 ** 33, 2 ** 40 + 7,
                   2.7, 0.5, 68.5, 1234.25, -0.5,
                   # integral only up to rounding: still not an exponent (never rounded or truncated silently)
                   0.29 * 100, 1.999999999, 2.0000001, 1e-9, 68.99999999999999]


# with two or more indeterminates the storage keys take exponents up to 2**32-60: products and powers whose
# exponent sum leaves that range must raise, not wrap around
HUGE_PAIRS = [[2 ** 31, 2 ** 31], [2 ** 32 - 60, 1], [2 ** 32 - 60, 59], [2 ** 31 + 5, 2 ** 31 - 5], [2 ** 30, 2 ** 30],
              [2 ** 31 - 100, 2 ** 31 - 100], [3 * 2 ** 30, 2 ** 30 + 7], [2 ** 32 - 61, 2]]


def enumerate_cases(tier):
    top = 55000
    if tier == "quick":
        yield {"exps": list(range(0, 4096))}
        strided = list(range(4096, top, 97))
        for i in range(0, len(strided), 200):
            yield {"exps": strided[i:i + 200]}
        yield {"exps": BOUNDARY}
        yield {"bad_exps": UNREPRESENTABLE}
        yield {"huge_pairs": HUGE_PAIRS}
        yield {"narrow_exponent_arrays": True}
        bset = [0, 1, 9, 10, 58, 59, 60, 68, 69, 70, 127, 128, 137, 196, 197, 198, 255, 256, 300]
        yield {"pairs": [[a, b] for a in bset for b in bset if a <= b]}
    else:
        for lo in range(0, top, 1000):
            yield {"exps": list(range(lo, min(top, lo + 1000)))}
        yield {"exps": BOUNDARY}
        yield {"bad_exps": UNREPRESENTABLE}
        yield {"huge_pairs": HUGE_PAIRS}
        yield {"narrow_exponent_arrays": True}
        for a in range(0, 601):
            yield {"pairs": [[a, b] for b in range(a, 601 - a)]} if a <= 300 else {"pairs": []}


@st.composite
def random_case(draw):
    D = draw(st.integers(1, 3))
    names = ["q0", "q1", "q2"][:D] if draw(st.booleans()) else ["q1", "q3", "q10"][:D]
    big = st.one_of(st.integers(0, 3), st.integers(60, 300), st.sampled_from(BOUNDARY), st.integers(0, 100000))

    def poly():
        n = draw(st.integers(1, 3))
        rows = draw(st.lists(st.lists(big, min_size=D, max_size=D), min_size=n, max_size=n, unique_by=tuple))
        coefs = draw(st.lists(st.sampled_from([1, -1, 2, 3, -2]), min_size=len(rows), max_size=len(rows)))
        return {"rows": rows, "coefs": coefs}

    return {"names": names, "a": poly(), "b": poly(),
            "op": draw(st.sampled_from(["add", "sub", "mul", "square", "derivative", "eval", "align", "pickle",
                                        "text", "values"])),
            "var": draw(st.integers(0, D - 1)), "point": draw(st.sampled_from([1, -1, 1.0]))}


def strategy(tier):
    return random_case()


def mono_model(names, rows, coefs):
    from ..conv import var_index
    vidx = [var_index(n) for n in names]
    d = {}
    for r, c in zip(rows, coefs):
        k = tuple(sorted((v, int(e)) for v, e in zip(vidx, r) if e))
        d[k] = d.get(k, 0) + c
    return MP(d)


def check_exp(numpoly, e, fails):
    def fail(kind, msg):
        cls = "e>=69" if e >= 69 else "small"
        key = "exponent:%s:%s" % (kind, cls)
        if not any(f.bucket == key for f in fails):
            fails.append(Failure(key, "exponent %d: %s" % (e, msg), case={"exps": [e]}))
    try:
        p = numpoly.polynomial_from_attributes([[e]], [7])
    except Exception as err:
        return fail("construction-raises:" + type(err).__name__, repr(err))
    if p.exponents.tolist() != [[e]]:
        return fail("exponents", "stored as %s" % p.exponents.tolist())
    try:
        raw = p.values
        q = numpoly.polynomial(raw, names=p.names)
        if q.exponents.tolist() != [[e]] or int(q.coefficients[0]) != 7:
            return fail("raw-view", "raw view rebuilt as %s" % q.exponents.tolist())
        r = pickle.loads(pickle.dumps(p))
        if r.exponents.tolist() != [[e]] or int(r.coefficients[0]) != 7:
            return fail("pickle", "unpickled as %s" % r.exponents.tolist())
        if e == 1:
            return
        two = numpoly.polynomial_from_attributes([[e, 1], [1, e]], [2, 3], ("q0", "q1"))
        got = sorted((tuple(x), int(c)) for x, c in zip(two.exponents.tolist(), two.coefficients))
        if got != sorted([((e, 1), 2), ((1, e), 3)]):
            return fail("two-columns", "stored as %s" % got)
        d = two.todict()
        if sorted((tuple(int(v) for v in k), int(v2)) for k, v2 in d.items()) != got:
            return fail("todict", "todict %s" % d)
    except Exception as err:
        return fail("exception:" + type(err).__name__, repr(err))


def check_pair(numpoly, a, b, fails):
    def fail(kind, msg):
        s = a + b
        cls = "sum>=197" if s >= 197 else ("sum>=69" if s >= 69 else "small")
        key = "product:%s:%s" % (kind, cls)
        if not any(f.bucket == key for f in fails):
            fails.append(Failure(key, "(3*q0**%d)*(5*q0**%d): %s" % (a, b, msg), case={"pairs": [[a, b]]}))
    try:
        q0, q1 = numpoly.variable(2)
        x = numpoly.polynomial_from_attributes([[a]], [3], ("q0",))
        y = numpoly.polynomial_from_attributes([[b]], [5], ("q0",))
        z = x * y
        terms = {tuple(e): int(c) for e, c in zip(z.exponents.tolist(), z.coefficients) if c != 0}
        if terms != {(a + b,): 15}:
            return fail("value", "got %s" % terms)
        # two indeterminates, two terms each: collisions between multi-byte keys would show here
        if a == 0:
            return
        u = numpoly.polynomial_from_attributes([[a, b], [0, 0]], [1, 1], ("q0", "q1"))
        v = numpoly.polynomial_from_attributes([[b + 1, 0], [0, a]], [1, -1], ("q0", "q1"))
        w = u * v
        want = (mono_model(("q0", "q1"), [[a, b], [0, 0]], [1, 1])
                * mono_model(("q0", "q1"), [[b + 1, 0], [0, a]], [1, -1]))
        got = to_model(w)[()]
        if not (got == want):
            return fail("value-2d", "got %r expected %r" % (got, want))
        # (q1**(a+b) + 5*q1**2 + q0) * (3*q0): the lexicographically last product tuple (2,0) is small,
        # another one, (1,a+b), is large
        if a + b > 2:
            u = numpoly.polynomial_from_attributes([[0, a + b], [0, 2], [1, 0]], [1, 5, 1], ("q0", "q1"))
            v = numpoly.polynomial_from_attributes([[1, 0]], [3], ("q0", "q1"))
            want = (mono_model(("q0", "q1"), [[0, a + b], [0, 2], [1, 0]], [1, 5, 1])
                    * mono_model(("q0", "q1"), [[1, 0]], [3]))
            got = to_model(u * v)[()]
            if not (got == want):
                return fail("value-last-small", "got %r expected %r" % (got, want))
    except MalformedPoly as err:
        return fail("malformed", str(err))
    except Exception as err:
        return fail("exception:" + type(err).__name__, repr(err))


def check_case(case, ctx):
    import numpoly

    fails = []
    if "exps" in case:
        for e in case["exps"]:
            check_exp(numpoly, e, fails)
        ctx.add_evals(len(case["exps"]), sum(1 for e in case["exps"] if e >= 69))
        ctx.label("enumerated:exponents")
        return fails
    if "bad_exps" in case:
        ctors = (("polynomial_from_attributes", lambda e: numpoly.polynomial_from_attributes([[e]], [1])),
                 ("ndpoly", lambda e: numpoly.ndpoly(exponents=[[e]])),
                 ("polynomial(dict)", lambda e: numpoly.polynomial({(e,): 1})),
                 ("ndpoly.from_attributes", lambda e: numpoly.ndpoly.from_attributes([[e]], [1])))
        for e in case["bad_exps"]:
            for cname, ctor in ctors:
                try:
                    p = ctor(e)
                except Exception:
                    continue
                if p.exponents.tolist() != [[e]]:
                    key = "unrepresentable:accepted" + (":fractional" if isinstance(e, float) else "")
                    if not any(f.bucket == key for f in fails):
                        fails.append(Failure(key, "%s: exponent %r accepted and stored as %s"
                                             % (cname, e, p.exponents.tolist()), case={"bad_exps": [e]}))
        ctx.add_evals(len(case["bad_exps"]), len(case["bad_exps"]))
        ctx.label("enumerated:unrepresentable")
        return fails
    if "narrow_exponent_arrays" in case:
        # exponents handed over as numpy arrays of a narrow integer type, at the type's upper end: adding the
        # key offset must not happen in that type
        n = nt = 0
        for dt in ("uint8", "int8", "uint16", "int16", "uint32", "int32", "int64", "uint64"):
            top = min(int(numpy.iinfo(dt).max), 100000)
            for e in sorted({top, top - 1, top - 58, top - 59, top - 60, 200 if top >= 200 else top, 1}):
                arr = numpy.array([[e, 1]], dtype=dt)
                for cname, ctor in (
                        ("ndpoly", lambda a: numpoly.ndpoly(exponents=a, shape=())),
                        ("polynomial_from_attributes", lambda a: numpoly.polynomial_from_attributes(a, [3])),
                        ("polynomial_from_attributes(retain)", lambda a: numpoly.polynomial_from_attributes(
                            a, [3], retain_coefficients=True, retain_names=True)),
                        ("ndpoly.from_attributes(retain)", lambda a: numpoly.ndpoly.from_attributes(
                            a, [3], retain_coefficients=True, retain_names=True))):
                    n += 1
                    nt += e >= 69
                    try:
                        p = ctor(arr.copy())
                        got = p.exponents.tolist()
                    except Exception as err:
                        got = "raised %r" % (err,)
                    if got != [[e, 1]]:
                        key = "narrow-exponent-array:%s" % ("exception" if isinstance(got, str) else "value")
                        if not any(f.bucket == key for f in fails):
                            fails.append(Failure(key, "%s with exponents %s(%s): %s" % (cname, dt, [[e, 1]], got),
                                                 case={"narrow_exponent_arrays": True}))
        ctx.add_evals(n, nt)
        ctx.label("enumerated:narrow-exponent-arrays")
        return fails
    if "huge_pairs" in case:
        limit = 2 ** 32 - 60
        for a, b in case["huge_pairs"]:
            for how in ("multiply", "square"):
                try:
                    x = numpoly.polynomial_from_attributes([[a, 0]], [3], ("q0", "q1"))
                    y = numpoly.polynomial_from_attributes([[b, 1]], [5], ("q0", "q1"))
                except Exception:
                    continue  # the operand itself is not accepted
                want = {(a + b, 1): 15} if how == "multiply" else {(2 * a, 0): 9}
                try:
                    z = x * y if how == "multiply" else x ** 2
                except Exception:
                    continue  # raising is always acceptable for sums that cannot be stored
                got = {tuple(e): int(c) for e, c in zip(z.exponents.tolist(), z.coefficients) if c != 0}
                if got != want:
                    key = "huge-exponent-sum:%s" % ("wrapped" if max(max(want)) > limit else "value")
                    if not any(f.bucket == key for f in fails):
                        fails.append(Failure(key, "%s of q0**%d (x q0**%d*q1): got %s expected %s or an error"
                                             % (how, a, b, got, want), case={"huge_pairs": [[a, b]]}))
        ctx.add_evals(2 * len(case["huge_pairs"]), 2 * len(case["huge_pairs"]))
        ctx.label("enumerated:huge-exponent-sums")
        return fails
    if "pairs" in case:
        for a, b in case["pairs"]:
            check_pair(numpoly, a, b, fails)
        ctx.add_evals(len(case["pairs"]), sum(1 for a, b in case["pairs"] if a + b >= 69))
        ctx.label("enumerated:pairs")
        return fails

    names = tuple(case["names"])
    op = case["op"]
    A, B = case["a"], case["b"]
    big = max(max(r) for r in A["rows"] + B["rows"])

    def fail(kind, msg):
        fails.append(Failure("%s:%s:%s" % (op, kind, "e>=69" if big >= 69 else "small"), msg))
        return fails

    try:
        pa = numpoly.polynomial_from_attributes(A["rows"], A["coefs"], names)
        pb = numpoly.polynomial_from_attributes(B["rows"], B["coefs"], names)
    except Exception as err:
        return fail("construction:" + type(err).__name__, repr(err))
    ma = mono_model(names, A["rows"], A["coefs"])
    mb = mono_model(names, B["rows"], B["coefs"])
    from ..conv import var_index
    vidx = [var_index(n) for n in names]
    try:
        if op == "add":
            got, want = to_model(pa + pb)[()], ma + mb
        elif op == "sub":
            got, want = to_model(pa - pb)[()], ma - mb
        elif op == "mul":
            got, want = to_model(pa * pb)[()], ma * mb
        elif op == "square":
            got, want = to_model(pa ** 2)[()], ma * ma
        elif op == "derivative":
            v = case["var"]
            got, want = to_model(numpoly.derivative(pa, names[v]))[()], ma.diff(vidx[v])
        elif op == "eval":
            x = case["point"]
            val = pa(**{n: x for n in names})
            want = sum(c * (1 if x in (1, 1.0) else (-1) ** (sum(r) % 2)) for r, c in zip(A["rows"], A["coefs"]))
            if float(val) != float(want):
                return fail("value", "p(%r,...) = %r expected %r" % (x, val, want))
            got = want = None
        elif op == "align":
            xa, xb = numpoly.align_polynomials(pa, pb)
            if not (to_model(xa)[()] == ma and to_model(xb)[()] == mb):
                return fail("value", "alignment changed a polynomial")
            if xa.exponents.tolist() != xb.exponents.tolist():
                return fail("exponents", "aligned exponents differ")
            got = want = None
        elif op == "pickle":
            got, want = to_model(pickle.loads(pickle.dumps(pa, protocol=case["var"] + 2)))[()], ma
        elif op == "values":
            got, want = to_model(numpoly.polynomial(pa.values, names=pa.names))[()], ma
        else:
            arr = numpoly.polynomial([pa, pb])
            for obj, wants in ((arr, [ma, mb]), (pa, [ma])):
                # (pa keeps its terms in the order they were given, arr is stored sorted)
                buf = io.StringIO()
                try:
                    numpoly.savetxt(buf, obj)
                    buf.seek(0)
                    back = numpoly.loadtxt(buf)
                except Exception:
                    ctx.label("text:raised")
                    ctx.nontrivial(big >= 69)
                    return []
                bm = to_model(back)
                if bm.size != len(wants) or not all(b == w for b, w in zip(bm.flat, wants)):
                    return fail("value", "text round-trip gave %r, expected %r" % (list(bm.flat), wants))
            got = want = None
    except MalformedPoly as err:
        return fail("malformed", str(err))
    except Exception as err:
        # a result exponent beyond the representable range may (must) raise
        limit = 0x10FFFF - 59
        sums = [max(ra[i] + rb[i] for ra in A["rows"] for rb in B["rows"]) for i in range(len(names))]
        if op in ("mul", "square") and max(sums + [2 * big]) > limit:
            ctx.label("random:unrepresentable-result-raised")
            ctx.nontrivial(True)
            return []
        return fail("exception:" + type(err).__name__, repr(err))
    if got is not None and not (got == want):
        return fail("value", "got %r expected %r" % (got, want))
    # the operands still denote what they did (monomials of the inputs must not move either)
    try:
        if not (to_model(pa)[()] == ma and to_model(pb)[()] == mb):
            return fail("operand-changed", "an operand denotes another polynomial after the operation")
    except MalformedPoly as err:
        return fail("operand-malformed", str(err))
    ctx.label("random:" + op)
    ctx.nontrivial(big >= 69)
    return fails
