"""C15 Option settings never change the mathematical result."""
import itertools

import numpy
from hypothesis import strategies as st

from .. import gen, hooks
from ..catalogue import RECIPES, EXTRA, PolyOperands, any_call_strategy, resolve, run_call
from ..conv import to_model, MalformedPoly
from ..core import Failure
from ..model import MP, first_diff, arr_close

ID = "C15"
BUDGET = {"quick": 2400, "thorough": 16000}
TECHNIQUE = ("option settings x operation catalogue x Hypothesis-generated inputs: differential of every call's result "
             "(model value, shape, dtype, or plain value) against the same call under default options; enumeration of "
             "single-option flips (quick) / all 256 boolean settings (thorough) on a fixed program set")
LEVEL_TEXT = ("Every catalogue entry of bounded cost (construct, combine, differentiate, evaluate, index, align, pickle; "
              "division under default retain options only) is run under a generated assignment of the eight boolean "
              "options (plus alternative display strings), with inputs built before and inside the setting, and compared "
              "with the run under defaults; ordering-based entries are compared only across settings that agree on "
              "sort_*, str/repr only across settings that agree on display_*.")
EXHAUSTIVE_PARTS = ("quick: the 8 single-option flips and 2 display-string settings on a fixed program set; thorough: all "
                    "256 assignments of the eight boolean options on that set; the generated part samples settings")
RULE = (
    "a call is drawn per catalogue entry (stratified; 83 registered functions + 39 numpoly-only callables) on "
    "polynomial arrays 0-3-d, 1-3 names, int/float, together with an assignment of retain_names, retain_coefficients, "
    "sort_graded, sort_reverse, display_graded, display_reverse, display_inverse, force_number_suffix (and sometimes "
    "display_exponent='^' / display_multiply=''), and whether the inputs are built before or inside the setting. "
    "Oracle: same exact model value, shape and dtype as under defaults (plain results: equal), and the call must not "
    "raise if it did not raise under defaults; names and all-zero terms may differ as the retain options prescribe. "
    "non-trivial = the setting differs from the defaults in a retain_* or sort_* flag and the result is non-constant."
)
LEVEL_TEXT += (" Construction without names (dict / attributes / from_attributes / clean_attributes with an unused leading or middle column) is in the fixed program set and the catalogue.")
ASSUMPTIONS = [
    "polynomial division is exercised under default retain options only, as the property states",
    "ordering-based entries (comparisons, maximum/minimum, amax/amin/argmax/argmin, sortable_proxy, lead_*) are compared only across settings that agree on sort_graded/sort_reverse",
    "str/repr/array_str/array_repr are compared only across settings that agree on all display_* options",
    "inputs carry explicit names in numeric order, so default_varname/force_number_suffix only matter where a function invents names and the monomial order does not depend on the storage layout",
]

# names in numeric order: with an unordered name tuple the monomial order of the ordering-based functions is
# relative to the storage layout, which re-alignment (and hence retain_names) changes - C07 owns the order itself
OG = PolyOperands(max_terms=4, max_exp=2, kinds="if", max_names=3, sorted_names=True)
BOOL_OPTS = ["retain_names", "retain_coefficients", "sort_graded", "sort_reverse",
             "display_graded", "display_reverse", "display_inverse", "force_number_suffix"]
SKIP = {"apply_along_axis", "apply_over_axes", "to_sympy", "copyto"}
ORDERING_X = {"sortable_proxy", "lead_exponent", "lead_coefficient"}
DISPLAY_X = {"str", "repr"}


@st.composite
def opts_st(draw):
    opts = {}
    how = draw(st.sampled_from(["one", "one", "retain", "any", "any"]))
    if how == "one":
        k = draw(st.sampled_from(BOOL_OPTS))
        opts[k] = None  # flipped below relative to the default
    elif how == "retain":
        opts = {"retain_names": draw(st.booleans()), "retain_coefficients": draw(st.booleans())}
    else:
        for k in BOOL_OPTS:
            if draw(st.booleans()):
                opts[k] = draw(st.booleans())
    if draw(st.integers(0, 5)) == 0:
        opts["display_exponent"] = "^"
    if draw(st.integers(0, 7)) == 0:
        opts["display_multiply"] = ""
    return opts


@st.composite
def case_st(draw, only=None):
    if only is None:
        call = draw(any_call_strategy(OG, skip=SKIP))
    elif only in RECIPES:
        call = draw(any_call_strategy(OG, names=[only], extra_names=[]))
    else:
        call = draw(any_call_strategy(OG, names=[], extra_names=[only]))
    call["opts"] = draw(opts_st())
    call["inside"] = draw(st.booleans())
    return call


def strategy(tier):
    return case_st()


def STRATA(tier):
    return sorted(n for n in list(RECIPES) + list(EXTRA) if n not in SKIP)


def strategy_for(tier, name):
    return case_st(only=name)


def summarize(x, numpoly):
    """(kind, payload) comparable across option settings."""
    if isinstance(x, numpoly.ndpoly):
        return ("poly", tuple(x.shape), str(x.dtype), to_model(x))
    if isinstance(x, (list, tuple)):
        return ("seq", tuple(summarize(i, numpoly) for i in x))
    if isinstance(x, dict):
        items = []
        for k, v in x.items():
            items.append((tuple(int(i) for i in k), numpy.asarray(v).tolist()))
        return ("dict", "terms", items)
    if isinstance(x, numpy.ndarray):
        return ("array", x.shape, x.dtype.kind, x.tolist())
    if isinstance(x, numpy.generic):
        return ("scalar", x.item())
    return ("plain", repr(x) if not isinstance(x, (bool, int, float, str, type(None))) else x)


def compare(a, b):
    if a[0] != b[0]:
        return "result kinds %s vs %s" % (a[0], b[0])
    if a[0] == "poly":
        if a[1] != b[1]:
            return "shape %s vs %s" % (a[1], b[1])
        if a[2] != b[2]:
            return "dtype %s vs %s" % (a[2], b[2])
        if a[3].dtype == object and not arr_close(a[3], b[3], 1e-12):
            return first_diff(a[3], b[3])
        return None
    if a[0] == "seq":
        if len(a[1]) != len(b[1]):
            return "lengths differ"
        for x, y in zip(a[1], b[1]):
            d = compare(x, y)
            if d:
                return d
        return None
    if a[0] == "dict":
        # todict(): all-zero terms and unused name columns may differ with the retain options;
        # compare the non-zero terms with zero exponent columns removed
        def norm(items):
            out = {}
            for k, v in items:
                if numpy.any(numpy.asarray(v) != 0):
                    out[k] = v
            return out
        na, nb = norm(a[2]), norm(b[2])
        if len(na) != len(nb):
            return "todict term counts differ"
        return None
    return None if a == b else "%r vs %r" % (a[1:], b[1:])


def defaults_differ(opts, keys, numpoly):
    d = numpoly.get_options(defaults=True)
    return any(k in opts and opts[k] != d[k] for k in keys)


def resolve_opts(opts, numpoly):
    d = numpoly.get_options(defaults=True)
    return {k: ((not d[k]) if v is None else v) for k, v in opts.items()}


NAME_DEPENDENT = {"gradient", "hessian", "exponents", "lead_exponent", "indeterminants", "set_dimensions",
                  "todict", "decompose", "aspolynomial-args"}
# accessors of the representation itself: the number of stored terms / name columns is exactly
# what the retain options decide
REPRESENTATION = {"coefficients", "exponents", "todict", "decompose"}


class NotComparable(Exception):
    pass


def names_dropped(call, args, kw, numpoly):
    """Did building the inputs inside the setting drop a declared (unused) name?"""
    from ..catalogue import operand_descs

    declared = [tuple(d["names"]) for d in operand_descs(call) if "names" in d]
    live = []

    def walk(x):
        if isinstance(x, numpoly.ndpoly):
            live.append(tuple(x.names))
        elif isinstance(x, (list, tuple)):
            for i in x:
                walk(i)
        elif isinstance(x, dict):
            for i in x.values():
                walk(i)
    walk([args, kw])
    return sorted(declared) != sorted(live)


def run_under(call, opts, inside, numpoly):
    """Run the call under opts; returns ('ok', summary) or ('raise', type name, repr)."""
    try:
        if inside:
            with numpoly.global_options(**opts):
                args = resolve(call["args"], "live")
                kw = resolve(call["kw"], "live")
                if names_dropped(call, args, kw, numpoly):
                    # the inputs themselves have fewer names than under defaults (that is what
                    # retain_names=False means): results whose shape or arguments are defined in
                    # terms of the name tuple are not comparable with the default run
                    fn = call["fn"]
                    designated = list(kw.get("vars", [])) + list(kw.get("values", {}))
                    if fn.startswith("cancel-"):
                        designated = designated or [0]
                    if fn in NAME_DEPENDENT or designated:
                        raise NotComparable()
                res = run_call(call, args, kw)
                return ("ok", summarize(res, numpoly))
        args = resolve(call["args"], "live")
        kw = resolve(call["kw"], "live")
        with numpoly.global_options(**opts):
            res = run_call(call, args, kw)
            return ("ok", summarize(res, numpoly))
    except hooks.DivisionLoop:
        raise
    except NotComparable:
        return ("skip",)
    except MalformedPoly as err:
        return ("malformed", str(err))
    except Exception as err:
        return ("raise", type(err).__name__, repr(err))


SORT_KEYS = ["sort_graded", "sort_reverse"]
DISPLAY_KEYS = ["display_graded", "display_reverse", "display_inverse", "display_exponent", "display_multiply"]
RETAIN_KEYS = ["retain_names", "retain_coefficients"]


def comparable(call, opts, numpoly):
    fn = call["fn"]
    if call.get("extra"):
        flags = EXTRA[fn][2]
        ordering = fn in ORDERING_X
        display = fn in DISPLAY_X
        division = "division" in flags
    else:
        rec = RECIPES[fn]
        ordering = "ordering" in rec.flags
        display = "display" in rec.flags
        division = False
    if ordering and defaults_differ(opts, SORT_KEYS, numpoly):
        return False
    if display and defaults_differ(opts, DISPLAY_KEYS, numpoly):
        return False
    if division and defaults_differ(opts, RETAIN_KEYS, numpoly):
        return False
    if fn in REPRESENTATION and defaults_differ(opts, RETAIN_KEYS, numpoly):
        return False
    if fn == "cancel-then-call" and opts.get("retain_names") is False:
        # the intermediate p - p no longer carries the names the keyword arguments designate
        return False
    return True


def check_call(call, opts, inside, ctx, numpoly, label=None):
    fn = call["fn"]
    base = run_under(call, {}, False, numpoly)
    if base[0] != "ok":
        return None, "default-run-raises"
    if not comparable(call, opts, numpoly):
        return None, "not-comparable"
    if fn in ("diff", "ediff1d"):
        # known finding (size-0 intermediates return unwritten memory): exclude empty results
        arrs = resolve(call["args"], "model")
        kwm = resolve(call["kw"], "model")
        try:
            if fn == "ediff1d" and arrs[0].size <= 1:
                return None, "excluded-known-empty-result"
            if fn == "diff" and numpy.diff(arrs[0], **kwm).size == 0:
                return None, "excluded-known-empty-result"
        except Exception:
            return None, "excluded-known-empty-result"
    got = run_under(call, opts, inside, numpoly)
    if got[0] == "skip":
        return None, "names-dropped-on-construction"
    changed = sorted(k for k in opts if opts[k] != numpoly.get_options(defaults=True).get(k))
    cls = "retain_coefficients" if "retain_coefficients" in changed else (
        "retain_names" if "retain_names" in changed else ("sort" if any(k in changed for k in SORT_KEYS) else "display"))
    where = "built-inside" if inside else "built-outside"
    if got[0] == "raise":
        return Failure("%s:raises-under-options:%s:%s" % (fn, got[1], cls),
                       "%s under %s (%s): %s" % (fn, {k: opts[k] for k in changed}, where, got[2])), None
    if got[0] == "malformed":
        return Failure("%s:malformed-under-options:%s" % (fn, cls), "%s under %s: %s" % (fn, changed, got[1])), None
    d = compare(got[1], base[1])
    if d:
        return Failure("%s:differs-under-options:%s" % (fn, cls),
                       "%s under %s (%s): %s" % (fn, {k: opts[k] for k in changed}, where, d)), None
    nonconst = base[1][0] == "poly" and any(not e.isconstant() for e in base[1][3].flat)
    ctx.nontrivial(bool(nonconst and any(k in changed for k in RETAIN_KEYS + SORT_KEYS)))
    return None, None


# ------------------------------------------------------------------ enumeration on a fixed program set

def fixed_programs():
    d1 = {"names": ["q0", "q1", "q2"], "shape": [3], "kind": "i", "retain": False,
          "terms": [[[2, 0, 0], [1, 0, 0]], [[0, 1, 0], [1, 0, 2]], [[1, 0, 1], [0, 1, 0]], [[0, 0, 0], [0, -3, 5]]]}
    d2 = {"names": ["q1", "q10"], "shape": [1], "kind": "f", "retain": False,
          "terms": [[[1, 1], [2]], [[0, 2], [-4]], [[0, 0], [6]]]}
    d3 = {"names": ["q0"], "shape": [2, 2], "kind": "i", "retain": False,
          "terms": [[[1], [1, 0, 2, 0]], [[3], [0, 1, 0, 0]], [[0], [0, 0, 0, 4]]]}
    P1, P2, P3 = {"$p": d1}, {"$p": d2}, {"$p": d3}
    progs = [
        {"fn": "add", "args": [P1, P2], "kw": {}}, {"fn": "subtract", "args": [P1, P1], "kw": {}},
        {"fn": "multiply", "args": [P1, P2], "kw": {}}, {"fn": "power", "args": [P1, 2], "kw": {}},
        {"fn": "sum", "args": [P3], "kw": {"axis": 0}}, {"fn": "prod", "args": [P3], "kw": {"axis": 1}},
        {"fn": "cumsum", "args": [P1], "kw": {}}, {"fn": "mean", "args": [P3], "kw": {}},
        {"fn": "concatenate", "args": [{"$pl": [d1, d2]}], "kw": {}}, {"fn": "reshape", "args": [P3, {"$tuple": [4]}], "kw": {}},
        {"fn": "transpose", "args": [P3], "kw": {}}, {"fn": "where", "args": [{"$np": {"dtype": "bool", "shape": [3], "v": [True, False, True]}}, P1, P2], "kw": {}},
        {"fn": "diff", "args": [P1], "kw": {}}, {"fn": "inner", "args": [P1, P1], "kw": {}},
        {"fn": "equal", "args": [P1, P1], "kw": {}}, {"fn": "isclose", "args": [P2, P2], "kw": {}},
        {"fn": "derivative", "args": [P1], "kw": {"vars": ["q0", "q2"]}, "extra": True},
        {"fn": "derivative", "args": [P1], "kw": {"vars": ["q1"]}, "extra": True},
        {"fn": "derivative", "args": [{"$p": {"names": ["q0", "q1", "q2"], "shape": [2], "kind": "i", "retain": False,
                                              "terms": [[[1, 1, 1], [1, 0]], [[1, 1, 0], [0, 2]]]}}],
         "kw": {"vars": [0, 1]}, "extra": True},
        {"fn": "derivative", "args": [P1], "kw": {"vars": ["q2", "q2"]}, "extra": True},
        {"fn": "cancel-then-call", "args": [P1], "kw": {"values": {"q0": 2, "q1": 1, "q2": 3}}, "extra": True},
        {"fn": "cancel-then-call", "args": [{"$p": {"names": ["q0"], "shape": [2], "kind": "i", "retain": False,
                                                    "terms": [[[1], [1, 2]], [[2], [0, 1]]]}}],
         "kw": {"values": {"q0": 2}}, "extra": True},
        {"fn": "cancel-then-reduce", "args": [P3], "kw": {"how": "sum"}, "extra": True},
        {"fn": "cancel-then-reduce", "args": [P1], "kw": {"how": "diffvar"}, "extra": True},
        {"fn": "cancel-then-reduce", "args": [P3], "kw": {"how": "diffvar"}, "extra": True},
        # an unused LEADING name: positions and names must keep their meaning between the steps
        {"fn": "derivative", "args": [{"$p": {"names": ["q0", "q1", "q2"], "shape": [], "kind": "i", "retain": False,
                                              "terms": [[[0, 2, 1], [1]], [[0, 0, 3], [1]]]}}],
         "kw": {"vars": [1, 1]}, "extra": True},
        {"fn": "derivative", "args": [{"$p": {"names": ["q0", "q1", "q2"], "shape": [2], "kind": "i", "retain": False,
                                              "terms": [[[0, 2, 1], [1, 2]], [[0, 0, 3], [1, 0]]]}}],
         "kw": {"vars": ["q1", "q0"]}, "extra": True},
        # multivariate, non-exact division: the result must not depend on the sort options
        {"fn": "poly_divmod", "args": [{"$p": {"names": ["q0", "q1"], "shape": [], "kind": "i", "retain": False,
                                               "terms": [[[2, 0], [1]], [[0, 2], [1]]]}},
                                       {"$p": {"names": ["q0", "q1"], "shape": [], "kind": "i", "retain": False,
                                               "terms": [[[1, 0], [1]], [[0, 1], [1]]]}}], "kw": {}, "extra": True},
        {"fn": "op-mod", "args": [{"$p": {"names": ["q0", "q1"], "shape": [2], "kind": "i", "retain": False,
                                          "terms": [[[2, 1], [1, 0]], [[0, 2], [1, 3]], [[1, 0], [0, 1]]]}},
                                  {"$p": {"names": ["q0", "q1"], "shape": [], "kind": "i", "retain": False,
                                          "terms": [[[1, 0], [1]], [[0, 1], [2]]]}}], "kw": {}, "extra": True},
        {"fn": "gradient", "args": [P1], "kw": {}, "extra": True}, {"fn": "hessian", "args": [P2], "kw": {}, "extra": True},
        {"fn": "call-partial", "args": [P1], "kw": {"values": {"q0": 2}}, "extra": True},
        {"fn": "call-partial", "args": [P1], "kw": {"values": {"q0": 2, "q1": -1, "q2": 3}}, "extra": True},
        {"fn": "getitem", "args": [P1], "kw": {"index": 1}, "extra": True},
        {"fn": "align_polynomials", "args": [P1, P2], "kw": {}, "extra": True},
        {"fn": "align_indeterminants", "args": [P1, P2], "kw": {}, "extra": True},
        {"fn": "pickle", "args": [P1], "kw": {}, "extra": True}, {"fn": "copy", "args": [P2], "kw": {}, "extra": True},
        {"fn": "set_dimensions", "args": [P1], "kw": {"dimensions": 2}, "extra": True},
        {"fn": "decompose", "args": [P1], "kw": {}, "extra": True}, {"fn": "astype", "args": [P1], "kw": {"dtype": "float64"}, "extra": True},
        {"fn": "polynomial", "args": [P1], "kw": {}, "extra": True}, {"fn": "clean_attributes", "args": [P1], "kw": {}, "extra": True},
        {"fn": "isconstant", "args": [P1], "kw": {}, "extra": True}, {"fn": "todict", "args": [P1], "kw": {}, "extra": True},
        {"fn": "tonumpy", "args": [{"$p": {"names": ["q0"], "shape": [2], "kind": "i", "retain": False, "terms": [[[0], [3, 4]]]}}], "kw": {}, "extra": True},
    ]
    # a high power that cancels: a retained all-zero term must not take part in the evaluation
    # (10.0**400 overflows, 0*inf is nan)
    hi = {"names": ["q0"], "shape": [], "kind": "f", "retain": False, "terms": [[[400], [4]], [[0], [4]]]}
    progs.append({"fn": "cancel-then-call", "args": [{"$p": hi}], "kw": {"values": {"q0": 10.0}}, "extra": True})
    progs.append({"fn": "cancel-then-call", "args": [{"$p": dict(hi, kind="i")}], "kw": {"values": {"q0": 3}}, "extra": True})
    # a cancelled term (kept as an all-zero term when coefficients are retained) through each kind of function
    fl = {"names": ["q0", "q1"], "shape": [2], "kind": "f", "retain": False,
          "terms": [[[1, 0], [4, 8]], [[0, 1], [0, 4]], [[0, 0], [4, 6]]]}
    for f in ("isfinite", "absolute", "negative", "floor", "square", "sum", "any", "all", "count_nonzero", "around",
              "mean", "cumsum"):
        progs.append({"fn": "cancel-then-unary", "args": [{"$p": fl}], "kw": {"fn": f, "const": 2}, "extra": True})
    # construction without names: the exponent columns are q0, q1, ... by position, whatever is dropped later
    for how in ("dict", "attributes", "from_attributes", "clean"):
        progs.append({"fn": "construct-unnamed", "args": [], "extra": True,
                      "kw": {"rows": [[0, 1], [0, 2]], "coefs": [3, 1], "how": how}})
        progs.append({"fn": "construct-unnamed", "args": [], "extra": True,
                      "kw": {"rows": [[1, 0, 0], [0, 0, 2], [0, 0, 0]], "coefs": [2, 5, 1], "how": how}})
    return progs


def enumerate_cases(tier):
    if tier == "quick":
        for k in BOOL_OPTS:
            yield {"enum_opts": {k: None}}
        yield {"enum_opts": {"display_exponent": "^"}}
        yield {"enum_opts": {"display_multiply": ""}}
        yield {"enum_opts": {"retain_names": False, "retain_coefficients": True}}
    else:
        for bits in itertools.product([False, True], repeat=len(BOOL_OPTS)):
            yield {"enum_opts": dict(zip(BOOL_OPTS, bits))}


def check_case(case, ctx):
    import numpoly

    if "enum_opts" in case:
        opts = resolve_opts(case["enum_opts"], numpoly)
        fails = []
        n = nt = 0
        for prog in fixed_programs():
            for inside in (False, True):
                f, skipped = check_call(prog, opts, inside, ctx, numpoly)
                if skipped:
                    continue
                n += 1
                nt += 1
                if f is not None and not any(x.bucket == f.bucket for x in fails):
                    f.case = dict(prog, opts=opts, inside=inside)
                    fails.append(f)
        ctx.add_evals(n, nt if any(k in RETAIN_KEYS + SORT_KEYS for k in opts) else 0)
        ctx.label("enumerated-setting")
        return fails
    opts = resolve_opts(case["opts"], numpoly)
    f, skipped = check_call(case, opts, case["inside"], ctx, numpoly)
    if skipped:
        ctx.label("skipped:" + skipped)
        ctx.discard_case(None)
        return []
    ctx.label("fn:" + case["fn"])
    for k, v in opts.items():
        if v != numpoly.get_options(defaults=True).get(k):
            ctx.label("option:%s=%r" % (k, v))
    ctx.label("inputs:" + ("built-inside" if case["inside"] else "built-outside"))
    return [f] if f else []
