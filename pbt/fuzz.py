#!/venv/bin/python
"""Coverage-guided campaign for one property (thorough-tier complement).

libFuzzer (atheris) drives the property's own Hypothesis strategy through
`test.hypothesis.fuzz_one_input`, with numpoly's Python sources instrumented for coverage and the
semantic oracle (check_case) inside the target.  A failure in a bucket that KNOWN_FINDINGS.txt does
not list is written as a JSON replay case and stops the campaign.

usage: pbt/fuzz.py --property Cxx --runs N --seed S --out result.json --corpus DIR
"""
import argparse
import json
import os
import sys
import time

ROOT = os.path.dirname(os.path.dirname(os.path.abspath(__file__)))
sys.path.insert(0, ROOT)
sys.dont_write_bytecode = True


def main():
    ap = argparse.ArgumentParser()
    ap.add_argument("--property", required=True)
    ap.add_argument("--runs", type=int, default=5000)
    ap.add_argument("--seed", type=int, default=1)
    ap.add_argument("--out", required=True)
    ap.add_argument("--corpus", required=True)
    args = ap.parse_args()

    from pbt import core

    deps = os.path.join(ROOT, ".deps")
    if deps not in sys.path:
        sys.path.append(deps)
    try:
        import atheris
    except Exception as err:
        json.dump({"skipped": "atheris not importable: %r" % (err,)}, open(args.out, "w"))
        return 0
    if sys.path[0] != core.REPO:
        sys.path.insert(0, core.REPO)
    with atheris.instrument_imports(include=["numpoly"]):
        numpoly = core.bootstrap()
    from pbt import hooks

    hooks.install()
    mod = core.load_prop(args.property)
    known = core.load_known().get(args.property, {})
    ctx = core.Ctx("thorough")
    state = {"execs": 0, "nontrivial": 0, "failure": None, "t0": time.time(), "known_hits": 0,
             "discarded": 0}

    import hypothesis
    from hypothesis import HealthCheck, given, settings

    strat = mod.strategy("thorough")

    @settings(database=None, deadline=None, suppress_health_check=list(HealthCheck))
    @given(strat)
    def test(case):
        state["execs"] += 1
        ctx.begin()
        hooks.reset_case(numpoly)
        try:
            fails = list(mod.check_case(case, ctx) or [])
        except hooks.DivisionLoop as err:
            if args.property != "C05":
                return
            fails = [core.Failure("poly_divmod:nonterminating:%s" % err.kind, str(err))]
        except core.Inconclusive:
            return
        except Exception as err:
            from pbt.conv import BuilderMismatch
            if isinstance(err, BuilderMismatch):
                state["discarded"] += 1
                return
            if core.numpoly_frame(err.__traceback__) is None:
                raise  # harness bug: let it surface
            fails = [core.Failure(core.exc_bucket("escape", err), repr(err))]
        finally:
            hooks.reset_case(numpoly)
        if ctx.is_nontrivial:
            state["nontrivial"] += 1
        for f in fails:
            if f.bucket in known:
                state["known_hits"] += 1
                continue
            state["failure"] = {"bucket": f.bucket, "message": f.message, "case": f.case or case}
            write(args, state)
            raise AssertionError("VIOLATION bucket=%s" % f.bucket)

    def write(a, st):
        out = {k: v for k, v in st.items() if k != "t0"}
        out["wall_s"] = time.time() - st["t0"]
        out["labels"] = dict(ctx.labels)
        tmp = a.out + ".tmp"
        with open(tmp, "w") as fh:
            json.dump(out, fh, default=str)
        os.replace(tmp, a.out)

    import atexit  # (not run by libFuzzer's exit; results are also written periodically below)

    def target(data):
        test.hypothesis.fuzz_one_input(data)
        if state["execs"] % 200 == 0:
            write(args, state)

    os.makedirs(args.corpus, exist_ok=True)
    # Hypothesis needs a few hundred bytes to build one case: start from deterministic
    # pseudo-random seeds of useful lengths instead of libFuzzer's 1-byte inputs
    import hashlib
    for i in range(8):
        blob = b""
        j = 0
        while len(blob) < 512 * (1 + i % 4):
            blob += hashlib.sha256(b"%d-%d-%d" % (args.seed, i, j)).digest()
            j += 1
        with open(os.path.join(args.corpus, "seed-%d" % i), "wb") as fh:
            fh.write(blob)
    argv = [sys.argv[0], "-runs=%d" % args.runs, "-seed=%d" % args.seed, "-max_len=8192", "-len_control=0",
            "-print_final_stats=1", "-artifact_prefix=%s/" % args.corpus, args.corpus]
    write(args, state)
    atheris.Setup(argv, target)
    atheris.Fuzz()


if __name__ == "__main__":
    sys.exit(main())
