#!/venv/bin/python
"""Create mutants/<name>.diff from (file, old, new) replacements against /repo's working tree."""
import difflib
import os
import sys

ROOT = os.path.dirname(os.path.dirname(os.path.abspath(__file__)))


def make(name, edits):
    out = []
    by_file = {}
    for path, old, new in edits:
        src = by_file.get(path)
        if src is None:
            src = open(os.path.join("/repo", path)).read()
        if src.count(old) != 1:
            raise SystemExit("%s: pattern occurs %d times in %s" % (name, src.count(old), path))
        by_file[path] = src.replace(old, new)
    for path, new_src in by_file.items():
        orig = open(os.path.join("/repo", path)).read()
        out += list(difflib.unified_diff(orig.splitlines(True), new_src.splitlines(True),
                                         "a/" + path, "b/" + path))
    with open(os.path.join(ROOT, "mutants", name + ".diff"), "w") as fh:
        fh.writelines(out)
    print("wrote mutants/%s.diff" % name)


if __name__ == "__main__":
    import importlib.util
    spec = importlib.util.spec_from_file_location("defs", sys.argv[1])
    mod = importlib.util.module_from_spec(spec)
    spec.loader.exec_module(mod)
    for name, edits in mod.MUTANTS.items():
        if len(sys.argv) > 2 and not any(name.startswith(p) for p in sys.argv[2:]):
            continue
        make(name, edits)
