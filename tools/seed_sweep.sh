#!/bin/sh
# usage: tools/seed_sweep.sh <first-seed> <last-seed> [tier] [jobs]   -- prints only runs that are not clean
cd "$(dirname "$0")/.."
A=$1; B=$2; TIER=${3:-quick}; JOBS=${4:-8}
for s in $(seq $A $B); do for p in C01 C02 C03 C04 C05 C06 C07 C08 C09 C10 C11 C12 C13 C14 C15 C16 C17 C18 C19 C20; do echo "$s $p"; done; done | \
xargs -P $JOBS -L 1 sh -c 'D=$(mktemp -d /tmp/sweep.XXXXXX); OUT=$(VERIF_EVID_DIR=$D VERIF_SEED=$0 PYTHONHASHSEED=0 /venv/bin/python -B pbt/run.py --property $1 --tier '"$TIER"' 2>&1); RC=$?; if [ $RC -ne 0 ]; then echo "=== seed $0 $1 rc=$RC"; echo "$OUT" | grep -v "^KNOWN" | cut -c1-400 | head -8; for f in $D/replays/*.json; do [ -f "$f" ] && cp "$f" evidence/sweep-$0-$(basename $f); done; fi; rm -rf $D'
echo "sweep $A..$B done"
