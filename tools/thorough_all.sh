#!/bin/sh
# usage: tools/thorough_all.sh <seed> [props...]  -- every property's thorough tier in sequence (16 workers each), prints non-clean runs
cd "$(dirname "$0")/.."
SEED=${1:-3}; shift
PROPS=${@:-C01 C02 C03 C04 C05 C06 C07 C08 C09 C10 C11 C12 C13 C14 C15 C16 C17 C18 C19 C20}
for p in $PROPS; do
  D=$(mktemp -d /tmp/thor.XXXXXX)
  OUT=$(VERIF_EVID_DIR=$D VERIF_SEED=$SEED PYTHONHASHSEED=0 /venv/bin/python -B pbt/run.py --property $p --tier thorough 2>&1); RC=$?
  echo "$OUT" | grep "^$p thorough"
  if [ $RC -ne 0 ]; then echo "=== $p rc=$RC"; echo "$OUT" | grep -v "^KNOWN" | cut -c1-400 | head -12; for f in $D/replays/*.json; do [ -f "$f" ] && cp "$f" evidence/thorough-$SEED-$(basename $f); done; fi
  rm -rf $D
done
echo "thorough seed $SEED done"
