#!/bin/sh
# usage: tools/one_sweep.sh <Cxx> <first-seed> <last-seed> [jobs]  -- one property over many seeds, prints non-clean runs
cd "$(dirname "$0")/.."
P=$1; A=$2; B=$3; JOBS=${4:-8}
seq $A $B | xargs -P $JOBS -I{} sh -c 'D=$(mktemp -d /tmp/sweep.XXXXXX); OUT=$(VERIF_EVID_DIR=$D VERIF_SEED={} PYTHONHASHSEED=0 /venv/bin/python -B pbt/run.py --property '"$P"' --tier quick 2>&1); RC=$?; if [ $RC -ne 0 ]; then echo "=== seed {} '"$P"' rc=$RC"; echo "$OUT" | grep -v "^KNOWN" | cut -c1-400 | head -6; for f in $D/replays/*.json; do [ -f "$f" ] && cp "$f" evidence/sweep-{}-$(basename $f); done; fi; rm -rf $D'
echo "sweep '"$P"' $A..$B done"
