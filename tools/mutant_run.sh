#!/bin/sh
# usage: tools/mutant_run.sh <patch.diff> <Cxx>[,Cyy...] [tier] [--tests]
# Applies the patch to a scratch copy of /repo (outside /repo and /verif), optionally runs the
# repository test suite there, runs the given checks against the copy, removes the copy.
PATCH=$(readlink -f "$1"); PIDS=$2; TIER=${3:-quick}; TESTS=$4
cd "$(dirname "$0")/.."
D=$(mktemp -d /tmp/mut.XXXXXX)
rsync -a --exclude .git --exclude __pycache__ /repo/ "$D/"
if ! (cd "$D" && patch -p1 -s < "$PATCH"); then echo "PATCH-FAILED $PATCH"; rm -rf "$D"; exit 3; fi
if [ "$TESTS" = "--tests" ]; then
  (cd "$D" && PYTHONPATH="$D" /venv/bin/python -m pytest -q -p no:cacheprovider --timeout=900 test 2>&1 | tail -1)
fi
RC=0
for P in $(echo "$PIDS" | tr , ' '); do
  VERIF_REPO="$D" VERIF_EVID_DIR="$D/.evidence" PYTHONHASHSEED=0 /venv/bin/python -B pbt/run.py --property "$P" --tier "$TIER" 2>&1 | grep -E "^(VIOLATION|C[0-9]+ |harness|  bucket)" | head -8
done
rm -rf "$D"
