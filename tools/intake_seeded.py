#!/venv/bin/python
"""Confirm a sub-agent's seeded defect and keep it under /verif/seeded/<id>/.

usage: tools/intake_seeded.py <out-dir> <Cxx|auto> <mN> [dest-id]   (auto: property from <mN>.json)
Checks, on scratch copies of /repo's working tree: the patch applies; the pinned tests that pass on the
unchanged tree still pass with it; the demonstration fails with it and passes without it.
"""
import json
import os
import shutil
import subprocess
import sys
import tempfile

ROOT = os.path.dirname(os.path.dirname(os.path.abspath(__file__)))
PY = "/venv/bin/python"


def sh(cmd, cwd=None, env=None):
    p = subprocess.run(cmd, shell=True, cwd=cwd, env=env, stdout=subprocess.PIPE,
                       stderr=subprocess.STDOUT, text=True)
    return p.returncode, p.stdout


def copy_repo():
    d = tempfile.mkdtemp(prefix="seed.", dir="/tmp")
    sh("rsync -a --exclude .git --exclude __pycache__ /repo/ %s/" % d)
    return d


def tests(d):
    env = dict(os.environ, PYTHONPATH=d)
    rc, out = sh("%s -m pytest -q -p no:cacheprovider --timeout=900 test 2>&1 | tail -4" % PY, cwd=d, env=env)
    failed = sorted(l.split()[1] for l in out.splitlines() if l.startswith("FAILED"))
    summary = out.strip().splitlines()[-1]
    return failed, summary


def main():
    outdir, pid, mn = sys.argv[1:4]
    patch = os.path.join(outdir, mn + ".diff")
    demo = os.path.join(outdir, mn + "_demo.py")
    meta = json.load(open(os.path.join(outdir, mn + ".json")))
    if pid == "auto":
        pid = meta["property"]
    dest_id = sys.argv[4] if len(sys.argv) > 4 else "%s-%s" % (pid, mn)
    clean = copy_repo()
    mut = copy_repo()
    try:
        rc, out = sh("patch -p1 -s < %s" % patch, cwd=mut)
        if rc:
            print("REJECT %s-%s: patch does not apply: %s" % (pid, mn, out[-300:]))
            return 1
        base_failed, base_sum = tests(clean)
        mut_failed, mut_sum = tests(mut)
        rc_c, out_c = sh("%s %s" % (PY, demo), cwd=clean, env=dict(os.environ, PYTHONPATH=clean))
        rc_m, out_m = sh("%s %s" % (PY, demo), cwd=mut, env=dict(os.environ, PYTHONPATH=mut))
        ok = (mut_failed == base_failed and "passed" in mut_sum and
              mut_sum.split("passed")[0].split()[-1] == base_sum.split("passed")[0].split()[-1]
              and rc_c == 0 and rc_m != 0)
        print("%s-%s: tests clean [%s] mutant [%s]; demo clean rc=%d mutant rc=%d -> %s"
              % (pid, mn, base_sum, mut_sum, rc_c, rc_m, "KEEP" if ok else "REJECT"))
        if not ok:
            print(out_c[-500:], out_m[-500:])
            return 1
        dest = os.path.join(ROOT, "seeded", dest_id)
        os.makedirs(dest, exist_ok=True)
        shutil.copy(patch, os.path.join(dest, "patch.diff"))
        shutil.copy(demo, os.path.join(dest, "demo.py"))
        meta_out = {
            "property": pid,
            "also_breaks": meta.get("also_breaks"),
            "summary": meta.get("summary"),
            "needs": meta.get("needs"),
            "files": meta.get("files"),
            "confirmed": {
                "tests_unchanged_tree": base_sum, "tests_with_patch": mut_sum,
                "same_failing_tests": mut_failed == base_failed,
                "demo_rc_unchanged_tree": rc_c, "demo_rc_with_patch": rc_m,
                "demo_output_with_patch": out_m[-400:],
                "how": "tools/intake_seeded.py on scratch copies of /repo (rsync, patch -p1), removed afterwards",
            },
            "detected_by": {},
        }
        json.dump(meta_out, open(os.path.join(dest, "meta.json"), "w"), indent=1)
        return 0
    finally:
        shutil.rmtree(clean, ignore_errors=True)
        shutil.rmtree(mut, ignore_errors=True)


if __name__ == "__main__":
    sys.exit(main())
