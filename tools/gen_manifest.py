#!/venv/bin/python
"""Regenerate MANIFEST.json from the per-property table below."""
import json
import os

ROOT = os.path.dirname(os.path.dirname(os.path.abspath(__file__)))

CMD = "env PYTHONHASHSEED=0 /venv/bin/python -B pbt/run.py --property {pid} --tier {tier}"

import importlib
import sys

sys.path.insert(0, ROOT)


def check_info(pid):
    """(category, technique, level text, level note, design ref) from the property module."""
    path = os.path.join(ROOT, "pbt", "props", pid.lower() + ".py")
    if not os.path.exists(path):
        return None
    mod = importlib.import_module("pbt.props." + pid.lower())
    if not hasattr(mod, "TECHNIQUE"):
        return None
    text = ("Generated-input search against an explicit oracle; shows absence of disagreement on the "
            "explored cases only. " + mod.LEVEL_TEXT)
    note = "Assumes: " + "; ".join(getattr(mod, "ASSUMPTIONS", []))
    return (getattr(mod, "LEVEL", "exploration"), mod.TECHNIQUE, text, note, "4 " + pid)


NOT_YET = "check not implemented yet in this revision of /verif (work in progress)"


def main():
    props = [json.loads(l) for l in open(os.path.join(ROOT, "properties.jsonl"))]
    checks = []
    na = []
    for p in props:
        pid = p["id"]
        info = check_info(pid)
        if info is None:
            na.append({"property_id": pid, "reason": NOT_YET})
            continue
        cat, tech, text, note, ref = info
        checks.append({
            "property_id": pid,
            "quick_cmd": CMD.format(pid=pid, tier="quick"),
            "thorough_cmd": CMD.format(pid=pid, tier="thorough"),
            "evidence_file": "/verif/evidence/%s.json" % pid,
            "replay_cmd_template": "env PYTHONHASHSEED=0 /venv/bin/python -B pbt/run.py --property %s --replay {path}" % pid,
            "engine": "pbt",
            "level_claimed": {"category": cat, "text": text, "design_ref": "DESIGN.md section " + ref},
            "level_note": note,
            "technique": tech,
        })
    manifest = {
        "version": 1,
        "setup_cmd": "sh tools/setup.sh",
        "hooks": {
            "guard": "NUMPOLY_VERIF",
            "enable": "no source hook is needed: the division-loop monitor and the poison allocator are installed "
                      "harness-side by pbt/hooks.py (wrapping numpoly module attributes at run time); /repo is "
                      "imported from its working tree as is",
            "baseline_off_cmd": "cd /repo && /venv/bin/python -m pytest -ra -q -p no:cacheprovider --timeout=900 "
                                "--continue-on-collection-errors",
            "source_commits": [],
            "add_only": True,
        },
        "engines": [{
            "name": "pbt",
            "path": "pbt/run.py",
            "serves_properties": [c["property_id"] for c in checks],
            "kind_free_text": "Hypothesis (stateless + stateful) generated-input search, bounded-exhaustive "
                              "enumeration with multiprocessing, explicit oracles (exact model, numpy on object "
                              "arrays, round-trips, differentials), collect->bucket->shrink, JSON replay files",
        }],
        "checks": checks,
        "not_applicable": na,
        "notes": "All checks run /repo's working tree through /venv/bin/python (editable install; VERIF_REPO "
                 "overrides the tree). Exit 0 = held, 1 = VIOLATION line + replay file, 2 = harness error. "
                 "KNOWN_FINDINGS.txt lists known (suppressed bucket) and fixed (not suppressed) defects.",
    }
    with open(os.path.join(ROOT, "MANIFEST.json"), "w") as fh:
        json.dump(manifest, fh, indent=1)
    print("MANIFEST.json: %d checks, %d not claimed" % (len(checks), len(na)))


if __name__ == "__main__":
    main()
