#!/venv/bin/python
"""Regenerate MANIFEST.json from the per-property table below."""
import json
import os

ROOT = os.path.dirname(os.path.dirname(os.path.abspath(__file__)))

CMD = "env PYTHONHASHSEED=0 /venv/bin/python -B pbt/run.py --property {pid} --tier {tier}"

# pid -> (category, technique, level text, level note, design ref)
CHECKS = {
    "C01": ("exploration",
            "Hypothesis expression-tree generation vs exact polynomial model + ring-law metamorphic relations",
            "Generated-input search: every node of generated expression trees (depth <= 4, mixed operand kinds, "
            "broadcast families, equal/overlapping/disjoint names) is compared with an independent exact model; "
            "ring laws are checked as metamorphic relations. Shows absence of disagreement on the explored cases only.",
            "Trusts pbt/model.py (cross-checked against sympy in setup), the prebuilt extension modules, and dyadic "
            "coefficient generation making float arithmetic exact.", "4 C01"),
    "C14": ("exploration",
            "bounded-exhaustive enumeration of option-call histories + Hypothesis-generated action lists vs a stack model",
            "All valid histories of 5 (quick) / 7 (thorough) actions over a 12-action alphabet (enter/exit normally/"
            "exit by Exception/BaseException, set_options, invalid keys, dict mutation) are enumerated and compared "
            "with a stack model after every step; longer histories with arbitrary option values are sampled.",
            "Single-threaded; blocks are driven through __enter__/__exit__ in LIFO order. Depth beyond the "
            "enumeration bound is only sampled.", "4 C14"),
}

NOT_YET = "check not implemented yet in this revision of /verif (work in progress)"


def main():
    props = [json.loads(l) for l in open(os.path.join(ROOT, "properties.jsonl"))]
    checks = []
    na = []
    for p in props:
        pid = p["id"]
        if pid not in CHECKS or not os.path.exists(
                os.path.join(ROOT, "pbt", "props", pid.lower() + ".py")):
            na.append({"property_id": pid, "reason": NOT_YET})
            continue
        cat, tech, text, note, ref = CHECKS[pid]
        checks.append({
            "property_id": pid,
            "quick_cmd": CMD.format(pid=pid, tier="quick"),
            "thorough_cmd": CMD.format(pid=pid, tier="thorough"),
            "evidence_file": "/verif/evidence/%s.json" % pid,
            "replay_cmd_template": "env PYTHONHASHSEED=0 /venv/bin/python -B pbt/run.py --property %s --replay {path}" % pid,
            "engine": "pbt",
            "level_claimed": {"category": cat, "text": text, "design_ref": "DESIGN.md section " + ref},
            "level_note": note,
            "technique": tech,
        })
    manifest = {
        "version": 1,
        "setup_cmd": "sh tools/setup.sh",
        "hooks": {
            "guard": "NUMPOLY_VERIF",
            "enable": "no source hook is needed: the division-loop monitor and the poison allocator are installed "
                      "harness-side by pbt/hooks.py (wrapping numpoly module attributes at run time); /repo is "
                      "imported from its working tree as is",
            "baseline_off_cmd": "cd /repo && /venv/bin/python -m pytest -ra -q -p no:cacheprovider --timeout=900 "
                                "--continue-on-collection-errors",
            "source_commits": [],
            "add_only": True,
        },
        "engines": [{
            "name": "pbt",
            "path": "pbt/run.py",
            "serves_properties": [c["property_id"] for c in checks],
            "kind_free_text": "Hypothesis (stateless + stateful) generated-input search, bounded-exhaustive "
                              "enumeration with multiprocessing, explicit oracles (exact model, numpy on object "
                              "arrays, round-trips, differentials), collect->bucket->shrink, JSON replay files",
        }],
        "checks": checks,
        "not_applicable": na,
        "notes": "All checks run /repo's working tree through /venv/bin/python (editable install; VERIF_REPO "
                 "overrides the tree). Exit 0 = held, 1 = VIOLATION line + replay file, 2 = harness error. "
                 "KNOWN_FINDINGS.txt lists known (suppressed bucket) and fixed (not suppressed) defects.",
    }
    with open(os.path.join(ROOT, "MANIFEST.json"), "w") as fh:
        json.dump(manifest, fh, indent=1)
    print("MANIFEST.json: %d checks, %d not claimed" % (len(checks), len(na)))


if __name__ == "__main__":
    main()
