#!/venv/bin/python
"""Run ALL twenty quick checks against one or more seeded defects and record which ones notice.

usage: tools/seeded_all.py <seeded-id> [...]      (JOBS=n parallel checks)
Writes seeded/<id>/meta.json:detected_by_all = {Cxx: [buckets]}.
"""
import json
import os
import re
import shutil
import subprocess
import sys
import tempfile
from concurrent.futures import ThreadPoolExecutor

ROOT = os.path.dirname(os.path.dirname(os.path.abspath(__file__)))
PY = "/venv/bin/python"
PROPS = ["C%02d" % i for i in range(1, 21)]


def main():
    for sid in sys.argv[1:]:
        d = os.path.join(ROOT, "seeded", sid)
        tmp = tempfile.mkdtemp(prefix="seedall.", dir="/tmp")
        try:
            subprocess.run("rsync -a --exclude .git --exclude __pycache__ /repo/ %s/" % tmp, shell=True, check=True)
            r = subprocess.run("patch -p1 -s < %s" % os.path.join(d, "patch.diff"), shell=True, cwd=tmp)
            if r.returncode:
                print(sid, "patch does not apply")
                continue

            def one(pid):
                env = dict(os.environ, VERIF_REPO=tmp, VERIF_EVID_DIR=os.path.join(tmp, ".ev-" + pid),
                           PYTHONHASHSEED="0", VERIF_SEED=os.environ.get("VERIF_SEED", "1"))
                r = subprocess.run([PY, "-B", "pbt/run.py", "--property", pid, "--tier", "quick"], cwd=ROOT, env=env,
                                   stdout=subprocess.PIPE, stderr=subprocess.STDOUT, text=True)
                return pid, r.returncode, re.findall(r"^  bucket=(\S+)", r.stdout, re.M)

            with ThreadPoolExecutor(max_workers=int(os.environ.get("JOBS", "8"))) as ex:
                res = list(ex.map(one, PROPS))
            hit = {pid: b[:4] for pid, rc, b in res if rc == 1 and b}
            err = [pid for pid, rc, b in res if rc == 2]
            meta = json.load(open(os.path.join(d, "meta.json")))
            meta["detected_by_all"] = hit
            json.dump(meta, open(os.path.join(d, "meta.json"), "w"), indent=1)
            print("%-8s targets %-4s detected by: %s%s" % (
                sid, meta["property"], ", ".join("%s(%s)" % (k, v[0]) for k, v in hit.items()) or "NONE",
                ("  harness-errors: %s" % err) if err else ""))
        finally:
            shutil.rmtree(tmp, ignore_errors=True)


if __name__ == "__main__":
    main()
