#!/bin/sh
# final confidence runs on the committed tree: a quick sweep over fresh seeds, then the thorough tier of the modules changed last
cd "$(dirname "$0")/.."
sh tools/seed_sweep.sh ${1:-1100} ${2:-1109} quick 6
sh tools/thorough_all.sh ${3:-8} C02 C12 C13 C11 C03 C10 C01
