cd "$(dirname "$0")/.."
sh tools/seed_sweep.sh 900 909 quick 8
sh tools/thorough_all.sh 5 C02 C03 C05 C06 C10 C11 C12 C13 C15 C16 C18 C20
