#!/bin/sh
# usage: tools/coverage_report.sh [props...]  -- numpoly line coverage of the quick checks (needs the coverage package in /venv)
cd "$(dirname "$0")/.."
D=$(mktemp -d /tmp/cov.XXXXXX)
PROPS=${@:-C01 C02 C03 C04 C05 C06 C07 C08 C09 C10 C11 C12 C13 C14 C15 C16 C17 C18 C19 C20}
for p in $PROPS; do
  VERIF_COVERAGE_DIR=$D VERIF_EVID_DIR=$D/ev PYTHONHASHSEED=0 /venv/bin/python -B pbt/run.py --property $p --tier quick 2>&1 | grep "^$p quick"
done
cd $D && /venv/bin/python -m coverage combine -q . >/dev/null 2>&1; /venv/bin/python -m coverage report -m --data-file=$D/.coverage 2>/dev/null | sed 's#/repo/##' > /tmp/coverage_report.txt
tail -3 /tmp/coverage_report.txt
rm -rf $D
