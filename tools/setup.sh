#!/bin/sh
# Offline, idempotent setup for the /verif checks.
set -e
cd "$(dirname "$0")/.."
PY=/venv/bin/python
if ! $PY -c "import hypothesis" 2>/dev/null; then
    /venv/bin/pip install --no-index --find-links /opt/veriftools/wheels hypothesis
fi
if ! PYTHONPATH=.deps $PY -c "import atheris" 2>/dev/null; then
    /venv/bin/pip install -q --no-index --find-links /opt/veriftools/wheels --target .deps atheris 2>/dev/null \
        || echo "setup: atheris not installable; fuzz targets will be skipped"
fi
$PY -B - <<'PYEOF'
import os, sys
repo = os.path.abspath(os.environ.get("VERIF_REPO", "/repo"))
sys.path.insert(0, repo)
import numpoly
assert os.path.abspath(numpoly.__file__).startswith(repo + os.sep), numpoly.__file__
from numpoly.cfunctions import cmultiply, cvalues, cfrom_attributes  # noqa
print("setup: numpoly from", numpoly.__file__)
PYEOF
PYTHONHASHSEED=0 $PY -B pbt/selftest.py
