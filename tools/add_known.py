#!/venv/bin/python
"""usage: tools/add_known.py <Cxx> <bucket-key> <evidence replay file> <name> <text...>
Copies the replay into replay/<Cxx>/known-<name>.json and appends a known: line to KNOWN_FINDINGS.txt."""
import json, os, shutil, sys
ROOT = os.path.dirname(os.path.dirname(os.path.abspath(__file__)))
pid, key, src, name = sys.argv[1:5]
text = " ".join(sys.argv[5:])
rep = json.load(open(src))
assert rep["bucket"] == key, (rep["bucket"], key)
os.makedirs(os.path.join(ROOT, "replay", pid), exist_ok=True)
dst = os.path.join("replay", pid, "known-%s.json" % name)
rep["expect"] = "known"
json.dump(rep, open(os.path.join(ROOT, dst), "w"), indent=1)
with open(os.path.join(ROOT, "KNOWN_FINDINGS.txt"), "a") as fh:
    fh.write("known: property=%s key=%s replay=%s %s\n" % (pid, key, dst, text))
print("added", pid, key)
