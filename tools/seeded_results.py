#!/venv/bin/python
"""Write seeded/RESULTS.md from the seeded/<id>/meta.json files (as left by tools/seeded_matrix.py / seeded_all.py)."""
import json
import os

ROOT = os.path.dirname(os.path.dirname(os.path.abspath(__file__)))


def main():
    base = os.path.join(ROOT, "seeded")
    rows, tally = [], {}
    for sid in sorted(x for x in os.listdir(base) if os.path.isdir(os.path.join(base, x))):
        meta = json.load(open(os.path.join(base, sid, "meta.json")))
        det = meta.get("detected_by", {})
        verdict = det.get("verdict", "not-run")
        note = ""
        if verdict != "detected":
            others = {k: v for k, v in (meta.get("detected_by_all") or {}).items() if k != meta.get("property")}
            if meta.get("neutralised"):
                verdict = "equivalent on the repaired tree"
                note = meta["neutralised"]
            elif others:
                verdict = "missed by %s, detected by %s" % (meta.get("property"), ", ".join(sorted(others)))
                note = "; ".join("%s: %s" % (k, v[0]) for k, v in sorted(others.items()))
        tally[verdict.split(",")[0].split(" by ")[0]] = tally.get(verdict.split(",")[0].split(" by ")[0], 0) + 1
        rows.append((sid, meta.get("property"), verdict, ", ".join(det.get("buckets", [])[:3]) or note, det.get("wall_s", 0),
                     meta.get("summary", "")))
    with open(os.path.join(base, "RESULTS.md"), "w") as fh:
        fh.write("# Seeded defects vs. the property's quick check (seed 1)\n\n")
        fh.write("%d seeded defects: %s\n\n" % (len(rows), ", ".join("%d %s" % (v, k) for k, v in sorted(tally.items()))))
        fh.write("| seeded defect | property | verdict | first buckets / note | wall s | what the change does |\n|---|---|---|---|---|---|\n")
        for r in rows:
            fh.write("| %s | %s | %s | `%s` | %.0f | %s |\n" % (r[0], r[1], r[2], (r[3] or "").replace("|", "/"), r[4],
                                                             (r[5] or "").replace("|", "/")))
    print(len(rows), tally)


if __name__ == "__main__":
    main()
