#!/venv/bin/python
"""Run each seeded defect's own property check (quick tier) against a scratch copy with the patch applied and
record the outcome in seeded/<id>/meta.json (detected_by) and seeded/RESULTS.md.

usage: tools/seeded_matrix.py [id-prefix ...]
"""
import json
import os
import re
import shutil
import subprocess
import sys
import tempfile
from concurrent.futures import ThreadPoolExecutor

ROOT = os.path.dirname(os.path.dirname(os.path.abspath(__file__)))
PY = "/venv/bin/python"


def run_one(sid):
    d = os.path.join(ROOT, "seeded", sid)
    meta = json.load(open(os.path.join(d, "meta.json")))
    pid = meta["property"]
    tmp = tempfile.mkdtemp(prefix="seedrun.", dir="/tmp")
    try:
        subprocess.run("rsync -a --exclude .git --exclude __pycache__ /repo/ %s/" % tmp, shell=True, check=True)
        r = subprocess.run("patch -p1 -s < %s" % os.path.join(d, "patch.diff"), shell=True, cwd=tmp,
                           stdout=subprocess.PIPE, stderr=subprocess.STDOUT, text=True)
        if r.returncode:
            return sid, pid, "patch-does-not-apply", [], 0.0
        env = dict(os.environ, VERIF_REPO=tmp, VERIF_EVID_DIR=os.path.join(tmp, ".evidence"), PYTHONHASHSEED="0",
                   VERIF_SEED=os.environ.get("VERIF_SEED", "1"))
        r = subprocess.run([PY, "-B", "pbt/run.py", "--property", pid, "--tier", "quick"], cwd=ROOT, env=env,
                           stdout=subprocess.PIPE, stderr=subprocess.STDOUT, text=True)
        buckets = re.findall(r"^  bucket=(\S+)", r.stdout, re.M)
        wall = re.search(r"([0-9.]+)s\s*$", [l for l in r.stdout.splitlines() if l.startswith(pid)][0]).group(1)
        verdict = "detected" if r.returncode == 1 and buckets else ("harness-error" if r.returncode == 2 else "missed")
        return sid, pid, verdict, buckets, float(wall)
    finally:
        shutil.rmtree(tmp, ignore_errors=True)


def main():
    ids = sorted(x for x in os.listdir(os.path.join(ROOT, "seeded")) if os.path.isdir(os.path.join(ROOT, "seeded", x)))
    if len(sys.argv) > 1:
        ids = [i for i in ids if any(i.startswith(p) for p in sys.argv[1:])]
    with ThreadPoolExecutor(max_workers=int(os.environ.get("JOBS", "6"))) as ex:
        results = list(ex.map(run_one, ids))
    rows = []
    for sid, pid, verdict, buckets, wall in results:
        mpath = os.path.join(ROOT, "seeded", sid, "meta.json")
        meta = json.load(open(mpath))
        if os.environ.get("SEEDED_NO_WRITE"):
            print("%-8s %-4s %-10s %5.0fs %s" % (sid, pid, verdict, wall, ", ".join(buckets[:2])))
            continue
        meta["detected_by"] = {"check": pid, "tier": "quick", "seed": int(os.environ.get("VERIF_SEED", "1")),
                               "verdict": verdict, "buckets": buckets[:6], "wall_s": wall,
                               "how": "tools/seeded_matrix.py: patch applied to a scratch copy of /repo (VERIF_REPO), removed afterwards"}
        json.dump(meta, open(mpath, "w"), indent=1)
        rows.append((sid, pid, verdict, ", ".join(buckets[:3]), wall, meta.get("summary", "")))
        print("%-8s %-4s %-10s %5.0fs %s" % (sid, pid, verdict, wall, ", ".join(buckets[:2])))
    if not os.environ.get("SEEDED_NO_WRITE"):
        subprocess.run([sys.executable, os.path.join(ROOT, "tools", "seeded_results.py")], check=True)

if __name__ == "__main__":
    main()
